"""Scenario engine: case dict (JSON) -> one simulated run -> observations.

A case fully determines a run:

    {"seed": 7,
     "server": {"block_size": 8192, "idle_timeout": None, ..., "users": [...]},
     "net":    {"latency": [lo, hi], "seg_mode": "random", "seg_max": 100, ...},
     "fs":     {"delay": [lo, hi] | None, "short_reads": false, "tree": {...}},
     "sessions": [{"label": "s0", "script": [...], "prefix": "/s0", "start": 0.0}],
     "faults": [{"at": ["event", 57], "do": "vanish", "session": "s0", "how": "rst"}],
     "settle": 3600.0, "final_close": true}

Everything random is derived from ``seed`` through named PRNG streams.
"""

from __future__ import annotations

import asyncio
import errno

from . import core
from .peers import PeerGone, RawPeer, ReplyTimeout
from .world import World, aioftp

# ----------------------------------------------------------------------- payloads


def payload(tag: str, size: int) -> bytes:
    """Position-stamped bytes: every 4-byte word encodes (tag hash, offset) so that
    reordering, duplication or a dropped block is visible."""
    if size <= 0:
        return b""
    h = 0
    for ch in tag:
        h = (h * 131 + ord(ch)) & 0xFF
    out = bytearray()
    i = 0
    while len(out) < size:
        out += bytes(((h + i) & 0xFF, (i >> 16) & 0xFF, (i >> 8) & 0xFF, i & 0xFF))
        i += 1
    return bytes(out[:size])


# ----------------------------------------------------------------------- configuration


def build_users(spec):
    users = []
    for u in spec or [{}]:
        perms = None
        if u.get("permissions"):
            perms = [aioftp.Permission(p[0], readable=p[1], writable=p[2]) for p in u["permissions"]]
        users.append(
            aioftp.User(
                u.get("login"),
                u.get("password"),
                base_path=u.get("base_path", "/"),
                home_path=u.get("home_path", "/"),
                permissions=perms,
                maximum_connections=u.get("maximum_connections"),
                read_speed_limit=u.get("read_speed_limit"),
                write_speed_limit=u.get("write_speed_limit"),
                read_speed_limit_per_connection=u.get("read_speed_limit_per_connection"),
                write_speed_limit_per_connection=u.get("write_speed_limit_per_connection"),
            )
        )
    return users


SERVER_KEYS = (
    "block_size",
    "socket_timeout",
    "idle_timeout",
    "wait_future_timeout",
    "path_timeout",
    "maximum_connections",
    "read_speed_limit",
    "write_speed_limit",
    "read_speed_limit_per_connection",
    "write_speed_limit_per_connection",
    "ipv4_pasv_forced_response_address",
    "data_ports",
    "encoding",
)


def apply_net(net, spec):
    cfg = net.cfg
    for k in ("seg_mode", "seg_max", "capacity", "high_water", "send_delay"):
        if k in spec:
            setattr(cfg, k, spec[k])
    for k in ("latency", "resolve_delay", "accept_delay"):
        if k in spec:
            setattr(cfg, k, tuple(spec[k]))
    for port, plan in (spec.get("bind_plan") or {}).items():
        net.bind_plan[int(port)] = list(plan)
    for port in spec.get("foreign_ports") or ():
        net.foreign_ports.add(int(port))


def random_net(rng, *, allow_small_pipe=True):
    """Swarm-style network configuration drawn from a PRNG stream."""
    spec = {}
    lat = rng.choice([0.0, 0.0001, 0.001, 0.01, 0.05])
    spec["latency"] = [lat, lat * rng.choice([1.0, 1.5, 3.0])]
    mode = rng.choice(["whole", "whole", "random", "random", "mss", "dribble"])
    spec["seg_mode"] = mode
    spec["seg_max"] = rng.choice([1, 2, 3, 7, 64, 536, 1460, 9000])
    if allow_small_pipe:
        spec["capacity"] = rng.choice([1, 7, 100, 4096, 65536, 262144, 262144])
        spec["high_water"] = rng.choice([0, 1, 100, 4096, 65536, 65536])
    spec["send_delay"] = rng.choice([0.0, 0.0, 0.0002])
    # jitter of the accept relative to the handshake: at most of the order of one latency
    spec["accept_delay"] = [0.0, rng.choice([0.0, 0.0, lat])]
    return spec


# ----------------------------------------------------------------------- script interpreter


class SessionObs:
    def __init__(self, label):
        self.label = label
        self.ops = []  # one record per executed op
        self.ended = None  # "done" | "gone" | "timeout" | "cancelled" | "error:..."
        self.peer = None


def _fmt(s, prefix):
    return s.replace("{P}", prefix)


async def run_script(world, sess, obs: SessionObs, hostport):
    host, port = hostport
    peer = RawPeer(world, sess["label"], host=host, port=port, reply_timeout=sess.get("reply_timeout", 1e6))
    obs.peer = peer
    prefix = sess.get("prefix", "")
    try:
        for op in sess["script"]:
            kind = op[0]
            rec = {"op": op}
            obs.ops.append(rec)
            if kind == "connect":
                rec["reply"] = await peer.connect()
            elif kind == "login":
                rec["code"] = await peer.login(op[1], op[2] if len(op) > 2 else "pw")
            elif kind == "cmd":
                rec["reply"] = await peer.cmd(_fmt(op[1], prefix))
                rec["fs_n"] = world.fsctl.per_label.get(sess["label"], 0)
            elif kind == "raw":
                await peer.send_raw(op[1].encode("latin-1"))
            elif kind == "reply":
                rec["reply"] = await peer.reply()
                rec["fs_n"] = world.fsctl.per_label.get(sess["label"], 0)
            elif kind == "pasv":
                rec["code"] = await peer.passive(op[1])
            elif kind == "dconnect":
                await peer.data_connect()
            elif kind == "dclose":
                peer.data_close()
            elif kind == "get":
                o = op[2] if len(op) > 2 else {}
                if o.get("rest") is not None:
                    # the passive command first: REST must be immediately followed by the transfer
                    pre = await peer.passive(o.get("p", "EPSV"))
                    rec["rest"] = await peer.cmd(f"REST {o['rest']}")
                    rec["res"] = await peer.download(_fmt(op[1], prefix), passive=None, connect=o.get("c", "before"), data_timeout=sess.get("data_timeout"))
                    rec["res"]["pre"] = pre
                else:
                    rec["res"] = await peer.download(_fmt(op[1], prefix), passive=o.get("p", "EPSV"), connect=o.get("c", "before"), data_timeout=sess.get("data_timeout"))
                rec["fs_n"] = world.fsctl.per_label.get(sess["label"], 0)
            elif kind == "get_stalled":
                # the peer opens the data connection with a tiny receive buffer and never reads it
                rec["pre"] = await peer.passive("EPSV")
                await peer.data_connect(limit=16)
                rec["reply"] = await peer.cmd(_fmt(op[1], prefix))
                await asyncio.sleep(op[2])
                peer.data_close()
            elif kind == "put":
                o = op[3] if len(op) > 3 else {}
                data = payload(_fmt(op[1], prefix), op[2])
                if o.get("rest") is not None:
                    pre = await peer.passive(o.get("p", "EPSV"))
                    rec["rest"] = await peer.cmd(f"REST {o['rest']}")
                    rec["res"] = await peer.upload(_fmt(op[1], prefix), data, passive=None, connect=o.get("c", "before"), chunks=o.get("chunks"), data_timeout=sess.get("data_timeout"))
                    rec["res"]["pre"] = pre
                else:
                    rec["res"] = await peer.upload(_fmt(op[1], prefix), data, passive=o.get("p", "EPSV"), connect=o.get("c", "before"), chunks=o.get("chunks"), data_timeout=sess.get("data_timeout"))
                rec["fs_n"] = world.fsctl.per_label.get(sess["label"], 0)
            elif kind == "sleep":
                await asyncio.sleep(op[1])
            elif kind == "fs_off":
                world.fsctl.enabled = False
            elif kind == "fs_on":
                world.fsctl.enabled = True
            elif kind == "quit":
                rec["reply"] = await peer.cmd("QUIT")
                try:
                    await peer.reply(op[1] if len(op) > 1 else 60.0)
                except PeerGone:
                    rec["eof"] = True
                except ReplyTimeout:
                    rec["eof"] = False
                peer.close()
            elif kind == "close":
                peer.close()
            elif kind == "wait_eof":
                try:
                    await peer.reply(op[1])
                    rec["eof"] = False
                except PeerGone:
                    rec["eof"] = True
                except ReplyTimeout:
                    rec["eof"] = False
            else:
                raise ValueError(f"unknown op {op!r}")
            rec["done"] = True
        obs.ended = "done"
    except PeerGone:
        obs.ended = "gone"
    except ReplyTimeout:
        obs.ended = "timeout"
    except asyncio.CancelledError:
        obs.ended = "cancelled"
        raise
    except (ConnectionError, asyncio.IncompleteReadError) as e:
        obs.ended = "conn:" + type(e).__name__
    except OSError as e:
        obs.ended = "oserror:" + errno.errorcode.get(e.errno, str(e.errno))


# ----------------------------------------------------------------------- scenario


class Obs:
    pass


def setup_world(case, *, max_steps=400_000, log_level=None):
    """World + server built from the 'server' / 'net' / 'fs' parts of a case.  The
    caller must use it as a context manager (``with world:``) *before* calling
    ``finish_setup``."""
    import logging

    world = World(case["seed"], max_steps=max_steps, epoch=case.get("epoch", 1_700_000_000.0), log_level=log_level or logging.WARNING)
    return world


def finish_setup(world, case):
    apply_net(world.net, case.get("net") or {})
    fsspec = case.get("fs") or {}
    if fsspec.get("delay"):
        world.fsctl.delay = tuple(fsspec["delay"])
    world.fsctl.short_reads = bool(fsspec.get("short_reads"))
    world.fsctl.close_returns = fsspec.get("close_returns")
    sspec = dict(case.get("server") or {})
    users = build_users(sspec.pop("users", None))
    if sspec.get("user_manager") not in (None, "memory"):
        from . import usermgr

        users = usermgr.build(sspec["user_manager"], users, world.rng("usermgr"), **({"delays": tuple(sspec["user_manager_delays"])} if sspec.get("user_manager_delays") else {}))
    kw = {k: sspec[k] for k in SERVER_KEYS if k in sspec}
    backend = {"memory": aioftp.MemoryPathIO, "pathio": aioftp.PathIO, "asyncpathio": aioftp.AsyncPathIO}[fsspec.get("backend", "memory")]
    server = world.make_server(users, backend=backend, **kw)
    if fsspec.get("backend") == "asyncpathio":
        r2 = world.rng("executor")
        world.loop.executor_delay = lambda: r2.choice([0.0, 0.0001, 0.001])
    tree = fsspec.get("tree")
    if tree and fsspec.get("backend", "memory") == "memory":
        world.populate({k: (None if v is None else (v.encode("latin-1") if isinstance(v, str) else payload(k, v))) for k, v in tree.items()})
    return server


def run_scenario(case, *, inspect=None, max_steps=400_000):
    """Run the case.  ``inspect(world, obs, phase)`` is called with phase in
    {"started", "settled", "closed"} on the loop (synchronously)."""
    world = setup_world(case, max_steps=max_steps)
    obs = Obs()
    obs.world = world
    obs.sessions = {}
    obs.faults_fired = []
    obs.extra_harness_tasks = set()
    obs.late = {}
    obs.close_completed = None
    obs.phase = "init"
    with world:
        server = finish_setup(world, case)
        host = case.get("host", "127.0.0.1")

        tasks = {}

        def do_fault(f):
            kind = f["do"]
            s = obs.sessions.get(f.get("session"))
            peer = s.peer if s is not None else None
            effective = True
            if kind in ("vanish", "ctl_cut", "send"):
                effective = peer is not None and peer.writer is not None and not peer.writer.transport._lost_called
            elif kind == "data_cut":
                effective = peer is not None and any(not t._lost_called and not t._closing for t in peer.data_conns)
            elif kind == "server_close":
                effective = hasattr(server, "server") and not hasattr(obs, "server_close_task") and obs.phase not in ("closing", "closed")
            obs.faults_fired.append((f.get("at"), kind, f.get("session"), round(world.loop.time(), 9), world.net.seq, world.loop.steps, effective))
            if kind == "vanish":
                if peer is not None:
                    peer.vanish(f.get("how", "rst"))
                    t = tasks.get(f["session"])
                    if t is not None and f.get("kill_task", True):
                        t.cancel()
            elif kind == "ctl_cut":
                if peer is not None and peer.writer is not None:
                    tr = peer.writer.transport
                    tr.abort() if f.get("how", "rst") == "rst" else tr.close()
                    t = tasks.get(f["session"])
                    if t is not None and f.get("kill_task", True):
                        t.cancel()
            elif kind == "data_cut":
                if peer is not None:
                    for tr in peer.data_conns:
                        tr.abort() if f.get("how", "rst") == "rst" else tr.close()
            elif kind == "server_close":
                if effective:  # start() has returned and the scenario's own final close has not begun
                    obs.server_close_task = world.loop.create_task(server.close())
                    if f.get("freeze_peers", True):
                        # the peers stay connected but do nothing any more: close() must complete anyway
                        for t in tasks.values():
                            t.cancel()
                    for i, d in enumerate(f.get("newcomers") or ()):
                        # somebody connects while close() is under way: refused, or served and
                        # taken down with the rest - never a session that close() leaves behind
                        async def late(i=i, d=d):
                            await asyncio.sleep(d)
                            p = RawPeer(world, f"late{i}", reply_timeout=1e5)
                            rec = obs.late[i] = {"delay": d, "accepted": False}
                            try:
                                rec["greeting"] = (await p.connect())[0]
                                rec["accepted"] = True
                                rec["user"] = (await p.cmd("USER anonymous"))[0]
                                await p.reply(1e6)  # then it stays connected and silent
                            except (OSError, PeerGone, ReplyTimeout) as e:
                                rec["ended"] = type(e).__name__

                        obs.extra_harness_tasks.add(world.spawn(late(), f"late{i}"))
            elif kind == "send":
                if peer is not None and peer.writer is not None and not peer.writer.transport.is_closing():
                    peer.note("C", f["line"])
                    peer.writer.write((f["line"] + "\r\n").encode())
            elif kind == "freeze":
                # network stall on every connection of the session, both directions
                for c in world.net.conns:
                    if c.label == f.get("session"):
                        for p in c.pipes.values():
                            p.frozen = True
            elif kind == "fs_fail_next":
                world.fsctl.fail_at[world.fsctl.n + 1] = f.get("errno", errno.EIO)
            elif kind == "clock_jump":
                world.clock.jump(f["delta"])
            else:
                raise ValueError(f"unknown fault {f!r}")

        for f in case.get("faults") or ():
            at = f["at"]
            if at[0] == "event":
                world.net.at_event(at[1], lambda f=f: do_fault(f))
            elif at[0] == "step":
                world.loop.at_step(at[1], lambda f=f: do_fault(f))
            elif at[0] == "time":
                world.loop.call_at(world.loop.time() + at[1], do_fault, f)
            elif at[0] == "fscall":
                world.fsctl.fail_at[at[1]] = f.get("errno", errno.EIO)
            elif at[0] == "fsop":
                world.fsctl.fail_op_at[(at[1], at[2])] = f.get("errno", errno.EIO)
            elif at[0] == "fsall":
                world.fsctl.fail_all_ops[at[1]] = f.get("errno", errno.EIO)
                world.fsctl.only_label = f.get("session")
            elif at[0] == "fsfrom":
                world.fsctl.fail_label_from[f["session"]] = (at[1], f.get("errno", errno.EIO))
            elif at[0] == "fslabel":
                world.fsctl.fail_label_at[(f["session"], at[1])] = f.get("errno", errno.EIO)

        def note_fs_fault(label, op, n):
            so = obs.sessions.get(label)
            if so is not None and so.ops:
                so.ops[-1].setdefault("fs_faults", []).append((op, n))
            obs.faults_fired.append((["fs", n], "fs:" + op, label, round(world.loop.time(), 9), world.net.seq, world.loop.steps, True))

        world.fsctl.on_fault.append(note_fs_fault)

        async def main():
            await server.start(host, case.get("port", 2121))
            obs.phase = "started"
            if inspect:
                inspect(world, obs, "started")
            for sess in case["sessions"]:
                so = obs.sessions[sess["label"]] = SessionObs(sess["label"])

                async def runner(sess=sess, so=so):
                    if sess.get("start"):
                        await asyncio.sleep(sess["start"])
                    await run_script(world, sess, so, (host, server.server_port))

                tasks[sess["label"]] = world.spawn(runner(), sess["label"])
            pending = list(tasks.values())
            if pending:
                try:
                    await asyncio.wait_for(asyncio.wait(pending), case.get("session_deadline", 1e5))
                except asyncio.TimeoutError:
                    pass
            obs.harness_tasks = set(pending)
            # let everything that is going to happen without further input happen
            await asyncio.sleep(case.get("settle", 3600.0))
            obs.phase = "settled"
            obs.net_events_at_settle = world.net.seq
            if inspect:
                r = inspect(world, obs, "settled")
                if asyncio.iscoroutine(r):
                    await r  # e.g. a fresh session that must still be served
            if case.get("final_close", True):
                obs.phase = "closing"
                t = getattr(obs, "server_close_task", None)
                if t is None:
                    t = world.loop.create_task(server.close())
                try:
                    await asyncio.wait_for(asyncio.shield(t), case.get("close_deadline", 1e5))
                    obs.close_completed = True
                except asyncio.TimeoutError:
                    obs.close_completed = False
                await asyncio.sleep(case.get("settle", 3600.0))
                obs.phase = "closed"
                if inspect:
                    inspect(world, obs, "closed")

        obs.main_task_names = None
        world.run(main())
        obs.outcome = world.outcome
        obs.error = world.error
        obs.digest = world.digest([(l, s.ended, [tuple(x[1:]) for x in (s.peer.transcript if s.peer else [])]) for l, s in sorted(obs.sessions.items())])
        obs.steps = world.loop.steps
        obs.vtime = world.loop.time() - 1000.0
        obs.events = world.net.seq
    return obs
