"""Drive a raw peer through a command history and compare every step with the reference
model (simftp.model).  Used by C05 (dispatcher conformance), C03 (login), C04
(permissions), C02 (path confinement) and C18 (backend differential)."""

from __future__ import annotations

import asyncio
import re

from . import model as M
from .peers import PeerGone, ReplyTimeout


class Step:
    __slots__ = ("op", "codes", "final", "mark", "data", "names", "closed", "expect", "problems", "pwd", "lines", "between")

    def __init__(self, op):
        self.op = op
        self.codes = []
        self.final = None
        self.mark = None
        self.data = None
        self.names = None
        self.closed = False
        self.expect = None
        self.problems = []
        self.pwd = None
        self.lines = None
        self.between = 0


def parse_pwd(line):
    """RFC 959: the directory is enclosed in double quotes, embedded quotes are doubled."""
    if not line.startswith('"'):
        return None
    out = []
    i = 1
    while i < len(line):
        ch = line[i]
        if ch == '"':
            if i + 1 < len(line) and line[i + 1] == '"':
                out.append('"')
                i += 2
                continue
            return "".join(out)
        out.append(ch)
        i += 1
    return None


def listing_names(verb, data, encoding="utf-8"):
    names = []
    for line in data.decode(encoding, "replace").split("\r\n"):
        if not line:
            continue
        if verb == "MLSD":
            names.append(line.partition(" ")[2])
        else:
            # unix ls -l: 8 columns then the name
            m = re.match(r"^\S+\s+\S+\s+\S+\s+\S+\s+\S+\s+\S+\s+\S+\s+\S+ (.*)$", line)
            names.append(m.group(1) if m else line)
    return names


async def drive(peer, sess: M.Session, ops, *, world=None, check_tree=True, settle=0.05, payload_of=None, stop_on_problem=False, on_step=None):
    """Execute ops = [(verb, arg, opts)], return list of Step.  `sess` is advanced."""
    steps = []
    alive = True
    for op in ops:
        verb, arg = op[0], op[1]
        opts = op[2] if len(op) > 2 else {}
        st = Step(op)
        steps.append(st)
        if not alive:
            st.problems.append(("not-run", "session already closed"))
            continue
        v = verb.upper()
        # a data connection that is already attached (made before an earlier, refused transfer
        # command) will be used by the server whether or not the peer planned to connect
        will_connect = opts.get("connect", "before") != "never" or (sess.dc and sess.logged and sess.listener)
        if v in M.TRANSFER and peer.passive_port is None and not sess.dc:
            will_connect = False  # no address was ever announced: the peer cannot connect
        if on_step is not None:
            on_step(st, "before", sess)  # may swap the model's tree (per-user base directories)
        try:
            exp = sess.expect(v, arg, will_connect=will_connect, user_limit_reached=opts.get("limit_reached", False))
        except Exception:
            # the model was advanced with a reply it had rejected (reported above as a problem of
            # an earlier step) and is no longer in a state it can reason from: stop comparing
            if any(x.problems for x in steps):
                st.problems.append(("not-run", "model and server diverged at an earlier step"))
                alive = False
                continue
            raise
        st.expect = exp
        between_cwd = None
        line = verb if arg == "" and not opts.get("trailing_space") else f"{verb} {arg}"
        stored = None
        try:
            if v in M.TRANSFER and sess.logged and sess.listener:
                # make (or reuse) the data connection as planned
                if will_connect and opts.get("connect", "before") == "before" and not sess.dc and peer.passive_port is not None:
                    await peer.data_connect()
                    sess.dc = True
                code, lines = await peer.cmd(line)
                st.codes.append(code)
                if code[0] == "1":
                    st.mark = code
                    if will_connect and not sess.dc and opts.get("between") and sess.rest == 0:
                        # commands sent between the 1xx mark and the data connection: the transfer
                        # must keep addressing what was resolved (and permission-checked) when its
                        # command was handled, whatever the session state is by the time the
                        # data connection shows up
                        cwd_at_command = sess.cwd
                        for bv, ba in opts["between"]:
                            bexp = sess.expect(bv, ba)
                            bcode, blines = await peer.cmd(bv if ba == "" else f"{bv} {ba}")
                            if not bexp.accepts(bcode):
                                st.problems.append(("wrong-reply", f"{bv} {ba!r} sent between the mark of {line!r} and its data connection: got {bcode}, model allows {sorted(bexp.codes)}"))
                            sess.apply(bv, ba, bcode)
                            st.between += 1
                        between_cwd = sess.cwd
                    if will_connect:
                        if not sess.dc or peer.data is None:
                            # (peer.data is None with sess.dc set: an earlier step ended differently
                            # from what the model expected - reported there - and closed it)
                            try:
                                await peer.data_connect()
                            except OSError:
                                st.problems.append(("no-data-connection", f"{line!r}: the announced passive port refused the data connection"))
                                raise PeerGone()
                            sess.dc = True
                        if v in ("STOR", "APPE"):
                            stored = payload_of(op) if payload_of else b"payload-" + arg.encode("utf-8", "replace")
                            how = await peer.send_all(stored, opts.get("chunks"), opts.get("pauses"))
                            peer.data_close()
                        else:
                            if opts.get("read_delay"):
                                # a reader that is slow to start: nothing may give up meanwhile
                                await asyncio.sleep(opts["read_delay"])
                            data, how = await peer.recv_all(timeout=30.0)
                            st.data = data
                            peer.data_close()
                    code, lines = await peer.reply()
                    st.codes.append(code)
                    while code[0] == "1":
                        code, lines = await peer.reply()
                        st.codes.append(code)
                st.final = code
                st.lines = lines
            else:
                code, lines = await peer.cmd(line)
                st.codes.append(code)
                while code[0] == "1":
                    st.mark = st.mark or code
                    code, lines = await peer.reply()
                    st.codes.append(code)
                st.final = code
                st.lines = lines
                if v in ("PASV", "EPSV") and code in ("227", "229"):
                    old = peer.passive_port
                    peer.parse_passive(code, lines)
                    peer.data_close()  # the server drops a stale data connection on PASV/EPSV
            # anything further within the settle window is a second reply to the same command
            try:
                extra = await peer.reply(settle)
                st.codes.append(extra[0])
                st.problems.append(("extra-reply", f"a further reply {extra[0]} {extra[1]} arrived after the final reply {st.final}"))
            except ReplyTimeout:
                pass
            except PeerGone:
                st.closed = True
        except PeerGone:
            st.closed = True
            if st.final is None:
                st.problems.append(("no-reply", f"control connection closed by the server without a final reply (replies so far {st.codes})"))
        except ReplyTimeout:
            st.problems.append(("no-reply", f"no final reply within the timeout (replies so far {st.codes})"))
            alive = False
            continue
        # ---------------- compare with the model
        if st.final is not None:
            if not exp.accepts(st.final):
                st.problems.append(("wrong-reply", f"{line!r}: got {st.final}, model allows {sorted(exp.codes)} ({exp.note})"))
            if exp.mark and st.final[0] == "2" and st.mark is None:
                st.problems.append(("missing-mark", f"{line!r}: completion {st.final} without a preceding 1xx mark"))
            if not exp.mark and st.mark is not None and st.final[0] == "2" and v not in M.TRANSFER:
                st.problems.append(("unexpected-mark", f"{line!r}: 1xx mark for a non-transfer command"))
            if v == "PWD" and st.final == "257":
                st.pwd = parse_pwd(lines[-1])
                if exp.pwd is not None and st.pwd != exp.pwd:
                    st.problems.append(("wrong-pwd", f"PWD reported {st.pwd!r} (raw {lines[-1]!r}), model cwd {exp.pwd!r}"))
            if st.final[0] == "2" and exp.data is not None and st.data is not None:
                alts = [exp.data] + list(getattr(exp, "data_alts", []))
                if st.data not in alts:
                    st.problems.append(("wrong-data", f"{line!r}: received {len(st.data)} bytes, model expects {len(exp.data)} (restart offset {sess.rest})"))
            if st.final[0] == "2" and exp.names is not None and st.data is not None:
                got = sorted(listing_names(v, st.data))
                if got != sorted(exp.names):
                    st.problems.append(("wrong-listing", f"{line!r}: listed {got}, model has {sorted(exp.names)}"))
            if between_cwd is not None:
                sess.cwd = cwd_at_command
            try:
                sess.apply(v, arg, st.final, stored=stored)
            except Exception:
                if not any(x.problems for x in steps):
                    raise
                alive = False
            if between_cwd is not None:
                sess.cwd = between_cwd
            if exp.closes and not st.closed:
                # give the server a moment to close after 221
                try:
                    await peer.reply(5.0)
                except PeerGone:
                    st.closed = True
                except ReplyTimeout:
                    st.problems.append(("not-closed", f"{line!r}: the server did not close the control connection after {st.final}"))
        if st.closed:
            alive = False
            if not (exp.closes or (st.final or "").startswith("421")):
                st.problems.append(("session-ended", f"{line!r}: the server closed the session after replying {st.final} (neither QUIT nor a 421)"))
        if check_tree and world is not None and st.final is not None:
            snap = world.snapshot()
            if snap != sess.tree:
                only_m = sorted(set(sess.tree) - set(snap))
                only_s = sorted(set(snap) - set(sess.tree))
                diff = [k for k in sess.tree if k in snap and snap[k] != sess.tree[k]]
                st.problems.append(("wrong-tree", f"after {line!r} -> {st.final}: only in model {only_m[:4]}, only in backend {only_s[:4]}, different content {diff[:4]}"))
                # resynchronise so that one divergence is reported once
                sess.tree.clear()
                sess.tree.update(snap)
        if on_step is not None:
            on_step(st, "after", sess)
        if stop_on_problem and st.problems:
            break
    return steps
