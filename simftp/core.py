"""Deterministic simulator core: virtual-time event loop + in-memory TCP model.

Everything nondeterministic that aioftp can observe goes through this file:

* ``SimLoop``   - subclass of asyncio.BaseEventLoop without a selector; time is
                  virtual; when nothing is runnable the clock jumps to the next timer;
                  no runnable handle and no timer while the main future is pending
                  raises ``SimDeadlock`` (a hang becomes a finite, reportable event).
* ``SimNet``    - listeners, connections, latency, segmentation, bounded pipes with
                  back-pressure, FIN / RST, refused connects, bind failures; every
                  network event has a global sequence number at which faults can be
                  placed.
* ``SimTransport`` - asyncio.Transport on top of a pair of directed pipes.

One integer (the seed) decides every choice through ``Rng`` streams.
"""

from __future__ import annotations

import asyncio
import asyncio.base_events
import asyncio.transports
import collections
import errno
import hashlib
import heapq
import random
import socket

# --------------------------------------------------------------------------- rng


def derive_seed(seed, purpose):
    h = hashlib.sha256(f"{seed}:{purpose}".encode()).digest()
    return int.from_bytes(h[:8], "big")


class Rng:
    """One random.Random per purpose, so that adding a draw in one stream never
    shifts another."""

    def __init__(self, seed):
        self.seed = seed
        self._streams = {}

    def __call__(self, purpose):
        r = self._streams.get(purpose)
        if r is None:
            r = self._streams[purpose] = random.Random(derive_seed(self.seed, purpose))
        return r


# --------------------------------------------------------------------------- errors


class SimSpin(KeyboardInterrupt):
    """One callback of the simulated loop has been running for many wall-clock seconds without
    returning to the loop: the code under test spins (a real server would be frozen).  Derived
    from KeyboardInterrupt so that asyncio's Task machinery lets it through to run_forever()."""


# which loop is inside a callback right now, and what the watchdog saw at its previous tick
_SPIN = {"loop": None, "seen": None, "ticks": 0}
SPIN_TICKS = 4  # consecutive watchdog ticks (2 s each) inside the same callback


def spin_tick():
    """Called from the harness' interval timer (signal handler, main thread)."""
    loop = _SPIN["loop"]
    if loop is None:
        _SPIN["seen"] = None
        _SPIN["ticks"] = 0
        return
    cur = (id(loop), loop.steps)
    if _SPIN["seen"] == cur:
        _SPIN["ticks"] += 1
        if _SPIN["ticks"] >= SPIN_TICKS:
            _SPIN["seen"] = None
            _SPIN["ticks"] = 0
            _SPIN["loop"] = None
            raise SimSpin(f"a single loop callback (step {loop.steps}) did not return for about {SPIN_TICKS * 2} wall-clock seconds")
    else:
        _SPIN["seen"] = cur
        _SPIN["ticks"] = 1


class SimDeadlock(Exception):
    """No ready handle and no timer while the main future is still pending."""


class SimBudget(Exception):
    """Step or virtual-time cap exceeded."""


# --------------------------------------------------------------------------- tasks


class SimTask(asyncio.Task):
    """Task whose hash is a pure function of (run salt, creation index) so that the
    iteration order of sets of tasks (aioftp iterates ``done`` sets) is decided by
    the seed and not by memory addresses."""

    _sim_hash = 0

    def __hash__(self):
        return self._sim_hash

    def __eq__(self, other):
        return self is other


class SimFuture(asyncio.Future):
    _sim_hash = 0

    def __hash__(self):
        return self._sim_hash

    def __eq__(self, other):
        return self is other


def _mix(salt, n):
    # cheap 64-bit mix (splitmix64 finaliser)
    x = (salt + n * 0x9E3779B97F4A7C15) & 0xFFFFFFFFFFFFFFFF
    x = ((x ^ (x >> 30)) * 0xBF58476D1CE4E5B9) & 0xFFFFFFFFFFFFFFFF
    x = ((x ^ (x >> 27)) * 0x94D049BB133111EB) & 0xFFFFFFFFFFFFFFFF
    x ^= x >> 31
    return x & 0x7FFFFFFFFFFFFFFF


# --------------------------------------------------------------------------- loop


class SimLoop(asyncio.base_events.BaseEventLoop):
    def __init__(self, seed=0, *, max_steps=400_000, max_vtime=1e7, start_time=1000.0):
        super().__init__()
        self.rng = Rng(seed)
        self._vtime = float(start_time)
        self.steps = 0
        self.max_steps = max_steps
        self.max_vtime = max_vtime
        self._salt = derive_seed(seed, "task-hash")
        self._task_index = 0
        self._fut_index = 0
        self.exc_log = []  # contexts passed to the exception handler
        self.step_hooks = {}  # step number -> list of callables
        self.net = SimNet(self)
        self.set_task_factory(self._make_task)
        self.set_exception_handler(self._on_exception)
        self.executor_delay = None  # callable -> float, or None for 0
        self.idle_hook = None  # called when nothing is runnable before deadlock is declared

    # -- time ------------------------------------------------------------
    def time(self):
        return self._vtime

    # -- tasks / futures with deterministic hashes ------------------------
    @staticmethod
    def _make_task(loop, coro, context=None):
        task = SimTask(coro, loop=loop, context=context)
        loop._task_index += 1
        task._sim_hash = _mix(loop._salt, loop._task_index)
        task.set_name(f"T{loop._task_index}")
        return task

    def create_future(self):
        fut = SimFuture(loop=self)
        self._fut_index += 1
        fut._sim_hash = _mix(self._salt ^ 0x5555, self._fut_index)
        return fut

    # -- exception handler ------------------------------------------------
    def _on_exception(self, loop, context):
        msg = context.get("message", "")
        exc = context.get("exception")
        # CPython 3.12.1 artefact: StreamReaderProtocol.connection_made.<locals>.callback
        # calls task.exception() on a *cancelled* client-connected task and the
        # CancelledError ends up here.  That is asyncio's bug, not aioftp's.
        if isinstance(exc, asyncio.CancelledError) and "callback" in repr(context.get("handle", "")):
            return
        self.exc_log.append(
            {
                "message": msg,
                "exception": repr(exc) if exc is not None else None,
                "exc_type": type(exc).__name__ if exc is not None else None,
                "vtime": self._vtime,
                "step": self.steps,
            }
        )

    # -- the scheduler ----------------------------------------------------
    def _run_once(self):
        sched = self._scheduled
        while sched and sched[0]._cancelled:
            self._timer_cancelled_count -= 1
            handle = heapq.heappop(sched)
            handle._scheduled = False
        if not self._ready and not self._stopping:
            if not sched and self.idle_hook is not None:
                self.idle_hook()
                while sched and sched[0]._cancelled:
                    self._timer_cancelled_count -= 1
                    handle = heapq.heappop(sched)
                    handle._scheduled = False
            if self._ready:
                pass
            elif sched:
                when = sched[0]._when
                if when > self._vtime:
                    self._vtime = when
                    if when > self.max_vtime:
                        raise SimBudget(f"virtual time cap exceeded ({when})")
            else:
                raise SimDeadlock("nothing runnable and no timer pending")
        end_time = self._vtime + self._clock_resolution
        while sched:
            handle = sched[0]
            if handle._when >= end_time:
                break
            handle = heapq.heappop(sched)
            handle._scheduled = False
            self._ready.append(handle)
        ntodo = len(self._ready)
        for _ in range(ntodo):
            handle = self._ready.popleft()
            if handle._cancelled:
                continue
            self.steps += 1
            if self.step_hooks:
                hooks = self.step_hooks.pop(self.steps, None)
                if hooks:
                    for h in hooks:
                        h()
            if self.steps > self.max_steps:
                raise SimBudget(f"step cap exceeded ({self.steps})")
            _SPIN["loop"] = self
            handle._run()
            _SPIN["loop"] = None
        handle = None

    def at_step(self, n, fn):
        self.step_hooks.setdefault(n, []).append(fn)

    # BaseEventLoop plumbing that would touch a selector ---------------------
    def _process_events(self, event_list):  # pragma: no cover
        pass

    def _write_to_self(self):
        pass

    # -- executor: inline + virtual delay ---------------------------------
    def run_in_executor(self, executor, func, *args):
        fut = self.create_future()
        delay = self.executor_delay() if self.executor_delay else 0.0

        def run():
            if fut.cancelled():
                # the real thread would still run; mimic that
                try:
                    func(*args)
                except BaseException:
                    pass
                return
            try:
                res = func(*args)
            except BaseException as e:  # noqa
                if isinstance(e, StopAsyncIteration) or isinstance(e, StopIteration):
                    # concurrent.futures can carry these; asyncio futures refuse StopIteration
                    fut.set_exception(RuntimeError("StopIteration in executor") if isinstance(e, StopIteration) else e)
                else:
                    fut.set_exception(e)
            else:
                fut.set_result(res)

        self.call_later(delay, run)
        return fut

    # -- network entry points ---------------------------------------------
    async def create_server(self, protocol_factory, host=None, port=None, *, family=socket.AF_UNSPEC, flags=0, sock=None, backlog=100, ssl=None, reuse_address=None, reuse_port=None, ssl_handshake_timeout=None, ssl_shutdown_timeout=None, start_serving=True):
        return await self.net.create_server(protocol_factory, host, port, family=family, start_serving=start_serving, backlog=backlog)

    async def create_connection(self, protocol_factory, host=None, port=None, *, ssl=None, family=0, proto=0, flags=0, sock=None, local_addr=None, server_hostname=None, ssl_handshake_timeout=None, ssl_shutdown_timeout=None, happy_eyeballs_delay=None, interleave=None, all_errors=False):
        return await self.net.create_connection(protocol_factory, host, port)

    def _start_serving(self, protocol_factory, sock, sslcontext=None, server=None, backlog=100, ssl_handshake_timeout=None, ssl_shutdown_timeout=None):
        self.net._start_serving(protocol_factory, sock, server)

    def _stop_serving(self, sock):
        self.net._stop_serving(sock)


# --------------------------------------------------------------------------- sockets


class SimSocket:
    """Only what aioftp and asyncio.trsock read."""

    type = socket.SOCK_STREAM
    proto = 0

    def __init__(self, family, addr):
        self.family = family
        self._addr = addr
        self.closed = False

    def getsockname(self):
        return self._addr

    def getpeername(self):
        return self._addr

    def listen(self, backlog=100):
        pass

    def setblocking(self, flag):
        pass

    def fileno(self):
        return -1

    def close(self):
        self.closed = True

    def __repr__(self):
        return f"<SimSocket {self._addr}>"


def _family_of(host):
    if host and ":" in host:
        return socket.AF_INET6
    return socket.AF_INET


def _sockaddr(family, host, port):
    if family == socket.AF_INET6:
        return (host, port, 0, 0)
    return (host, port)


# --------------------------------------------------------------------------- net

FIN = "FIN"
RST = "RST"


class NetConfig:
    """Per-run network behaviour (filled from a seed by the scenario)."""

    def __init__(self):
        self.latency = (0.0005, 0.002)  # uniform range, seconds
        self.seg_mode = "whole"  # whole | random | dribble | mss
        self.seg_max = 1460
        self.capacity = 256 * 1024  # bytes in flight + unread per direction
        self.high_water = 64 * 1024
        self.send_delay = 0.0  # coalescing delay before the first segment leaves
        self.resolve_delay = (0.0, 0.0)  # host-name resolution (non-literal hosts)
        self.accept_delay = (0.0, 0.0)  # extra jitter on top of the two handshake latencies


class Listener:
    def __init__(self, sock, protocol_factory, server, label):
        self.sock = sock
        self.protocol_factory = protocol_factory
        self.server = server
        self.label = label
        self.open = True


class Pipe:
    """One direction of a connection."""

    __slots__ = ("src", "dst", "inflight", "inflight_bytes", "last_when", "frozen", "fin_sent", "delivered", "sent", "_rst_sent")

    def __init__(self):
        self.src = None
        self.dst = None
        self.inflight = collections.deque()
        self.inflight_bytes = 0
        self.last_when = 0.0
        self.frozen = False
        self.fin_sent = False
        self.delivered = 0
        self.sent = 0
        self._rst_sent = False


class SimNet:
    def __init__(self, loop):
        self.loop = loop
        self.cfg = NetConfig()
        self.rng = loop.rng("net")
        self.listeners = {}  # port -> Listener
        self.foreign_ports = set()  # ports held by "someone else" -> EADDRINUSE
        self.bind_plan = {}  # port -> list of outcomes consumed per attempt ("ok" | errno int)
        self.bind_log = []
        self.next_port = 40000
        self.next_client_port = 50000
        self.seq = 0  # global network event sequence number
        self.log = []  # (seq, vtime, kind, conn_id, side, n)
        self.conns = []  # Conn objects in creation order
        self.event_hooks = {}  # seq -> [callables] executed *before* event seq is processed
        self.observers = []  # callables(seq, kind, conn, side, n) after every event
        self.transports = []  # every SimTransport ever created
        self.listener_log = []  # (vtime, 'open'|'close', port, label)
        self.label_ctx = None  # contextvar-like callable returning current session label
        self.keep_log = True
        self.harness_errors = []
        self.deliver_taps = []  # callables(conn, side, data) when bytes are handed to a protocol
        self.write_taps = []  # callables(conn, side, data) when an endpoint calls transport.write

    # ---- helpers
    def _lat(self, cfg=None):
        lo, hi = (cfg or self.cfg).latency
        return lo if hi <= lo else self.rng.uniform(lo, hi)

    def at_event(self, seq, fn):
        self.event_hooks.setdefault(seq, []).append(fn)

    def _event(self, kind, conn, side, n, fn):
        """Wrap a network event: numbering, fault hooks, logging, observers."""
        self.seq += 1
        seq = self.seq
        try:
            hooks = self.event_hooks.pop(seq, None)
            if hooks:
                for h in hooks:
                    h()
            if self.keep_log:
                self.log.append((seq, round(self.loop._vtime, 9), kind, conn.id if conn else -1, side, n))
            fn()
            for ob in self.observers:
                ob(seq, kind, conn, side, n)
        except BaseException as e:  # a bug in the simulator or in a hook, never aioftp's
            import traceback

            self.harness_errors.append("".join(traceback.format_exception(type(e), e, e.__traceback__)))

    # ---- listeners
    async def _resolve(self, host):
        literal = host is not None and (host.replace(".", "").isdigit() or ":" in host)
        lo, hi = self.cfg.resolve_delay
        if not literal and hi > 0:
            await asyncio.sleep(self.rng.uniform(lo, hi))

    async def create_server(self, protocol_factory, host, port, *, family=socket.AF_UNSPEC, start_serving=True, backlog=100):
        # same suspension structure as BaseEventLoop.create_server: gather(resolve) ->
        # bind -> Server -> _start_serving -> sleep(0)
        await asyncio.gather(self._resolve(host))
        if host in (None, ""):
            fam = socket.AF_INET if family in (socket.AF_UNSPEC, 0) else family
            bhost = "0.0.0.0" if fam == socket.AF_INET else "::"
        else:
            fam = _family_of(host)
            bhost = host
        if not port:
            while self.next_port in self.listeners or self.next_port in self.foreign_ports:
                self.next_port += 1
            port = self.next_port
            self.next_port += 1
        else:
            plan = self.bind_plan.get(port)
            outcome = "ok"
            if plan:
                outcome = plan.pop(0)
            if outcome == "ok" and (port in self.listeners or port in self.foreign_ports):
                outcome = errno.EADDRINUSE
            self.bind_log.append((round(self.loop._vtime, 9), port, outcome))
            if outcome != "ok":
                raise OSError(outcome, f"error while attempting to bind on address ({bhost!r}, {port}): simulated")
        sock = SimSocket(fam, _sockaddr(fam, bhost, port))
        # the port is bound from here on (bind happens before listen / before the
        # final sleep(0)); a task cancelled in that window has a bound socket it will
        # never hear about -- exactly as on the real loop.
        label = self.label_ctx() if self.label_ctx else None
        lst = Listener(sock, None, None, label)
        lst.open = False
        self.listeners[port] = lst
        self.listener_log.append((round(self.loop._vtime, 9), "bind", port, label))
        server = asyncio.base_events.Server(self.loop, [sock], protocol_factory, None, backlog, None, None)
        lst.server = server
        if start_serving:
            server._start_serving()
            await asyncio.sleep(0)
        return server

    def _start_serving(self, protocol_factory, sock, server):
        port = sock.getsockname()[1]
        lst = self.listeners.get(port)
        if lst is None or lst.sock is not sock:
            lst = Listener(sock, protocol_factory, server, None)
            self.listeners[port] = lst
        lst.protocol_factory = protocol_factory
        lst.server = server
        lst.open = True
        self.listener_log.append((round(self.loop._vtime, 9), "listen", port, lst.label))

    def _stop_serving(self, sock):
        port = sock.getsockname()[1]
        lst = self.listeners.get(port)
        if lst is not None and lst.sock is sock:
            lst.open = False
            del self.listeners[port]
            self.listener_log.append((round(self.loop._vtime, 9), "close", port, lst.label))
        sock.close()

    def live_listener_ports(self):
        return sorted(self.listeners)

    # ---- connections
    async def create_connection(self, protocol_factory, host, port):
        loop = self.loop
        await self._resolve(host)
        label = self.label_ctx() if self.label_ctx else None
        conn = Conn(self, len(self.conns), host, port, label)
        self.conns.append(conn)
        fut = loop.create_future()
        conn.connect_fut = fut
        # SYN travels to the server
        loop.call_at(loop._vtime + self._lat(), self._event, "syn", conn, "s", 0, lambda: self._syn_arrives(conn))
        try:
            await fut
        except asyncio.CancelledError:
            conn.client_gone_before_connect = True
            raise
        protocol = protocol_factory()
        waiter = loop.create_future()
        tr = SimTransport(self, conn, "c", protocol, waiter=waiter)
        conn.ends["c"] = tr
        try:
            await waiter
        except BaseException:
            tr.close()
            raise
        return tr, protocol

    def _syn_arrives(self, conn):
        lst = self.listeners.get(conn.port)
        loop = self.loop
        if lst is None or not lst.open:
            # RST to the SYN -> ConnectionRefusedError at the client after one latency
            def refuse():
                if not conn.connect_fut.done():
                    conn.connect_fut.set_exception(ConnectionRefusedError(errno.ECONNREFUSED, f"Connect call failed ({conn.host!r}, {conn.port})"))

            loop.call_at(loop._vtime + self._lat(), self._event, "refused", conn, "c", 0, refuse)
            return
        conn.listener = lst
        conn.server_label = lst.label
        # The kernel completes the handshake: the SYN-ACK travels back (client "connected"
        # after one more latency) and the client's ACK travels forth; only then is the
        # connection in the accept queue, and a single-threaded event loop serves a ready
        # listener in the very next iteration.  So the accept happens two latencies after the
        # SYN arrived (plus an optional small jitter), never arbitrarily later: an accept
        # delayed past several later round trips on another socket cannot happen on a real loop.
        lo, hi = self.cfg.accept_delay
        jitter = lo if hi <= lo else self.rng.uniform(lo, hi)
        jitter = min(jitter, self.cfg.latency[1])  # never more than one latency (see above)
        lat_synack = self._lat()
        d_acc = lat_synack + self._lat() + jitter
        loop.call_at(loop._vtime + lat_synack, self._event, "connected", conn, "c", 0, lambda: self._client_connected(conn))
        loop.call_at(loop._vtime + d_acc, self._event, "accept", conn, "s", 0, lambda: self._accept(conn))

    def _client_connected(self, conn):
        if not conn.connect_fut.done():
            conn.connect_fut.set_result(None)

    def _accept(self, conn):
        lst = conn.listener
        if not lst.open:
            # listener closed with this connection still in the backlog: kernel resets it
            conn.accept_dropped = True
            self._deliver_rst_to(conn, "c")
            return
        protocol = lst.protocol_factory()
        tr = SimTransport(self, conn, "s", protocol, server=lst.server)
        conn.ends["s"] = tr
        conn.accepted_at = self.loop._vtime

    def _deliver_rst_to(self, conn, side):
        tr = conn.ends.get(side)
        if tr is None:
            if side == "c":
                conn.rst_before_client_transport = True
            return
        tr._on_rst()

    # ---- ledger queries
    def open_transports(self, side=None):
        return [t for t in self.transports if not t._lost_called and (side is None or t.side == side)]


class Conn:
    def __init__(self, net, id_, host, port, label):
        self.net = net
        self.id = id_
        self.host = host
        self.port = port
        self.label = label  # session label of the connecting (client) side
        self.server_label = None  # label of the listener (who opened it)
        self.ends = {}
        self.pipes = {"c": Pipe(), "s": Pipe()}  # keyed by *destination* side
        self.listener = None
        self.connect_fut = None
        self.accepted_at = None
        self.accept_dropped = False
        self.client_gone_before_connect = False
        self.rst_before_client_transport = False
        self.client_port = net.next_client_port
        net.next_client_port += 1
        self.cfg = None  # optional per-connection override of NetConfig
        self.early = {"c": collections.deque(), "s": collections.deque()}  # arrived before the endpoint exists

    def other(self, side):
        return "s" if side == "c" else "c"

    def __repr__(self):
        return f"<Conn {self.id} ->{self.port} label={self.label}>"


class SimTransport(asyncio.transports._FlowControlMixin):
    def __init__(self, net, conn, side, protocol, waiter=None, server=None):
        self.net = net
        self.conn = conn
        self.side = side
        loop = net.loop
        fam = _family_of(conn.host)
        if side == "c":
            sockname = _sockaddr(fam, conn.host, conn.client_port)
            peername = _sockaddr(fam, conn.host, conn.port)
        else:
            sockname = _sockaddr(fam, conn.host, conn.port)
            peername = _sockaddr(fam, conn.host, conn.client_port)
        self._sock = SimSocket(fam, sockname)
        extra = {"peername": peername, "sockname": sockname, "socket": self._sock}
        super().__init__(extra, loop)
        self._protocol = protocol
        self._server = server
        self._sendbuf = bytearray()
        self._rcvbuf = collections.deque()  # delivered by the network, not yet given to the protocol
        self._rcv_bytes = 0
        self._reading = False  # protocol wants data
        self._started = False
        self._closing = False
        self._conn_lost = 0
        self._lost_called = False
        self._eof_written = False
        self._eof_received = False
        self._rst_pending = False
        self._pump_scheduled = False
        self._reset_received = False
        self.created_at = loop._vtime
        self.closed_at = None
        self.closed_step = None
        self.last_write_at = None
        self.bytes_written = 0
        self.bytes_received = 0
        self.close_reason = None
        self.set_write_buffer_limits(high=net.cfg.high_water)
        net.transports.append(self)
        early = conn.early[side]
        while early:
            item = early.popleft()
            self._rcvbuf.append(item)
            if item is RST:
                self._rst_pending = True
            elif item is not FIN:
                self._rcv_bytes += len(item)
        if server is not None:
            server._attach()
        loop.call_soon(self._protocol.connection_made, self)
        loop.call_soon(self._start_reading)
        if waiter is not None:
            loop.call_soon(asyncio.futures._set_result_unless_cancelled, waiter, None)

    # -- pipes
    @property
    def _out(self):  # pipe towards the peer
        return self.conn.pipes[self.conn.other(self.side)]

    @property
    def _in(self):
        return self.conn.pipes[self.side]

    def _peer(self):
        return self.conn.ends.get(self.conn.other(self.side))

    def _cfg(self):
        return self.conn.cfg or self.net.cfg

    # -- protocol plumbing
    def set_protocol(self, protocol):
        self._protocol = protocol

    def get_protocol(self):
        return self._protocol

    def is_closing(self):
        return self._closing

    def is_reading(self):
        return self._reading and not self._closing

    def _start_reading(self):
        self._started = True
        if self._closing:
            return
        self._reading = True
        self._flush_rcvbuf()

    def pause_reading(self):
        self._reading = False

    def resume_reading(self):
        if self._closing or self._reading:
            return
        self._reading = True
        # the selector would report readability on the next iteration
        self._loop.call_soon(self._flush_rcvbuf)

    def _flush_rcvbuf(self):
        while self._rcvbuf and self._reading and not self._closing:
            item = self._rcvbuf.popleft()
            if item is FIN:
                self._handle_fin()
            elif item is RST:
                self._force_close(ConnectionResetError(errno.ECONNRESET, "Connection reset by peer"))
            else:
                self._rcv_bytes -= len(item)
                self.bytes_received += len(item)
                for tap in self.net.deliver_taps:
                    tap(self.conn, self.side, item)
                try:
                    self._protocol.data_received(bytes(item))
                except BaseException as exc:  # noqa
                    self._fatal_error(exc, "Fatal error: protocol.data_received() call failed.")
                    return
        # window opened for the sender
        peer = self._peer()
        if peer is not None:
            peer._schedule_pump()

    # -- writing
    def get_write_buffer_size(self):
        return len(self._sendbuf)

    def write(self, data):
        if self._eof_written:
            raise RuntimeError("Cannot call write() after write_eof()")
        if not data:
            return
        if self._conn_lost:
            self._conn_lost += 1
            return
        if self._rst_pending:
            self._force_close(BrokenPipeError(errno.EPIPE, "Broken pipe"))
            return
        for tap in self.net.write_taps:
            tap(self.conn, self.side, data)
        self._sendbuf += data
        self.bytes_written += len(data)
        self.last_write_at = self._loop._vtime
        self._maybe_pause_protocol()
        self._schedule_pump()

    def writelines(self, list_of_data):
        self.write(b"".join(list_of_data))

    def can_write_eof(self):
        return True

    def write_eof(self):
        if self._closing or self._eof_written:
            return
        self._eof_written = True
        self._schedule_pump()

    def _schedule_pump(self):
        if self._pump_scheduled:
            return
        self._pump_scheduled = True
        d = self._cfg().send_delay
        if d:
            self._loop.call_later(d, self._pump)
        else:
            self._loop.call_soon(self._pump)

    def _window(self):
        pipe = self._out
        peer = self._peer()
        unread = peer._rcv_bytes if peer is not None else 0
        return self._cfg().capacity - pipe.inflight_bytes - unread

    def _pump(self):
        self._pump_scheduled = False
        pipe = self._out
        cfg = self._cfg()
        net = self.net
        loop = self._loop
        if pipe.frozen:
            return
        while self._sendbuf:
            win = self._window()
            if win <= 0:
                break
            mode = cfg.seg_mode
            if mode == "whole":
                n = len(self._sendbuf)
            elif mode == "dribble":
                n = 1
            elif mode == "mss":
                n = cfg.seg_max
            else:
                n = net.rng.randint(1, max(1, cfg.seg_max))
            n = max(1, min(n, win, len(self._sendbuf)))
            seg = bytes(self._sendbuf[:n])
            del self._sendbuf[:n]
            self._enqueue(seg)
        self._maybe_resume_protocol()
        if not self._sendbuf:
            if self._closing and not pipe.fin_sent and not self._conn_lost:
                # orderly close: FIN after the data, then connection_lost
                pipe.fin_sent = True
                self._enqueue(RST if self._close_with_rst else FIN)
                self._conn_lost += 1
                loop.call_soon(self._call_connection_lost, None)
            elif self._eof_written and not pipe.fin_sent:
                pipe.fin_sent = True
                self._enqueue(FIN)

    _close_with_rst = False

    def _enqueue(self, item):
        pipe = self._out
        loop = self._loop
        when = max(pipe.last_when, loop._vtime + self.net._lat(self.conn.cfg))
        pipe.last_when = when
        n = 0 if item is FIN or item is RST else len(item)
        pipe.inflight.append(item)
        pipe.inflight_bytes += n
        pipe.sent += n
        dst = self.conn.other(self.side)
        kind = "fin" if item is FIN else "rst" if item is RST else "data"
        loop.call_at(when, self.net._event, kind, self.conn, dst, n, lambda: self._arrive(pipe, dst))

    def _arrive(self, pipe, dst):
        """Head of the pipe reaches the destination host."""
        if pipe.frozen:
            # network stall (permanent): the segment stays queued for ever
            return
        item = pipe.inflight.popleft()
        n = 0 if item is FIN or item is RST else len(item)
        pipe.inflight_bytes -= n
        pipe.delivered += n
        conn = self.conn
        peer = conn.ends.get(dst)
        if peer is None:
            # server side not accepted yet (or client transport not created yet):
            # the kernel buffers it
            conn.early[dst].append(item)
            self._schedule_pump()
            return
        peer._on_arrival(item)
        self._schedule_pump()

    def _on_arrival(self, item):
        if self._lost_called or self._conn_lost:
            # socket already closed locally: data for a closed socket is answered by RST
            if item is not FIN and item is not RST:
                self._send_rst_back()
            return
        if item is RST:
            self._on_rst()
            return
        if self._closing:
            # closed for reading but still flushing its write buffer: the socket is still
            # open, the data sits unread in the kernel -> the eventual close sends RST
            if item is not FIN:
                self._close_with_rst = True
            return
        self._rcvbuf.append(item)
        if item is not FIN:
            self._rcv_bytes += len(item)
        if self._reading:
            self._flush_rcvbuf()

    def _send_rst_back(self):
        pipe = self._out
        if pipe._rst_sent:
            return
        pipe._rst_sent = True
        self._enqueue(RST)

    def _on_rst(self):
        self._reset_received = True
        if self._lost_called or self._conn_lost:
            return
        if self._closing or self._sendbuf:
            # a pending send fails at once with EPIPE/ECONNRESET
            self._force_close(ConnectionResetError(errno.ECONNRESET, "Connection reset by peer"))
            return
        if self._reading:
            # deliver buffered data first (it was received before the reset)
            self._rcvbuf.append(RST)
            self._flush_rcvbuf()
        else:
            self._rcvbuf.append(RST)
            self._rst_pending = True

    def _handle_fin(self):
        self._eof_received = True
        try:
            keep_open = self._protocol.eof_received()
        except BaseException as exc:  # noqa
            self._fatal_error(exc)
            return
        if not keep_open:
            self.close()

    # -- closing
    def close(self):
        if self._closing:
            return
        self._closing = True
        self._reading = False
        self.close_reason = self.close_reason or "close"
        self.closed_at = self._loop._vtime
        self.closed_step = self._loop.steps
        # unread data in the kernel buffer at close() time -> the kernel sends RST, not FIN
        if self._rcv_bytes > 0:
            self._close_with_rst = True
        self._rcvbuf.clear()
        self._rcv_bytes = 0
        if not self._sendbuf:
            pipe = self._out
            if not pipe.fin_sent:
                pipe.fin_sent = True
                self._enqueue(RST if self._close_with_rst else FIN)
            self._conn_lost += 1
            self._loop.call_soon(self._call_connection_lost, None)
        # else: _pump sends the FIN once the buffer is flushed

    def abort(self):
        self.close_reason = self.close_reason or "abort"
        self._force_close(None, send_rst=True)

    def _fatal_error(self, exc, message="Fatal error on transport"):
        if not isinstance(exc, OSError):
            self._loop.call_exception_handler({"message": message, "exception": exc, "transport": self, "protocol": self._protocol})
        self._force_close(exc)

    def _force_close(self, exc, send_rst=False):
        if self._conn_lost:
            return
        self._sendbuf.clear()
        if not self._closing:
            self._closing = True
            self._reading = False
            self.closed_at = self._loop._vtime
            self.closed_step = self._loop.steps
        self.close_reason = self.close_reason or ("reset" if exc is not None else "abort")
        self._rcvbuf.clear()
        self._rcv_bytes = 0
        self._conn_lost += 1
        if send_rst:
            pipe = self._out
            pipe.fin_sent = True
            # RST overtakes nothing: it is queued behind what is already in flight
            self._enqueue(RST)
        self._loop.call_soon(self._call_connection_lost, exc)

    def _call_connection_lost(self, exc):
        if self._lost_called:
            return
        self._lost_called = True
        try:
            self._protocol.connection_lost(exc)
        finally:
            self._sock.close()
            server = self._server
            if server is not None:
                server._detach()
                self._server = None

    # -- fault helpers (used by the simulator only)
    def freeze_out(self):
        self._out.frozen = True

    def freeze_in(self):
        self._in.frozen = True


def new_loop(seed, **kw):
    loop = SimLoop(seed, **kw)
    return loop
