"""Sequential reference model of an FTP session (DESIGN.md appendix A).

Written from the property statements, RFC 959 / 3659 and aioftp's documentation - not a
transliteration of server.py.  Deliberately relational where the statements are: the
model returns the *set* of acceptable final reply codes for a command, and its successor
state is chosen according to the reply actually given when more than one is acceptable.

tree: dict  absolute-posix-path -> None (directory) | bytes (file); "/" always present.
"""

from __future__ import annotations

import copy

TRANSFER = ("RETR", "STOR", "APPE", "LIST", "MLSD")


def resolve(cwd, arg):
    """Independent resolver: join with cwd, fold '..' from the virtual root, clamp at '/'."""
    s = str(arg)
    if s.startswith("/"):
        parts = s.split("/")
    else:
        parts = cwd.split("/") + s.split("/")
    stack = []
    for p in parts:
        if p == "" or p == ".":
            continue
        if p == "..":
            if stack:
                stack.pop()
        else:
            stack.append(p)
    return "/" + "/".join(stack)


def parent(p):
    if p == "/":
        return "/"
    return p.rsplit("/", 1)[0] or "/"


class UserSpec:
    def __init__(self, login, password=None, home="/", permissions=None, maximum_connections=None):
        self.login = login
        self.password = password
        self.home = home
        self.permissions = permissions or []  # list of (path, readable, writable)
        self.maximum_connections = maximum_connections


def perm_lookup(user, path, flag):
    """Longest-prefix lookup, default allowed.  Returns the *set* of possible verdicts
    (duplicate entries for the same path with different flags make both acceptable)."""
    best = -1
    verdicts = set()
    for (pp, r, w) in user.permissions:
        pp = resolve("/", pp)
        if pp == "/" or path == pp or path.startswith(pp + "/"):
            depth = 0 if pp == "/" else pp.count("/")
            v = r if flag == "r" else w
            if depth > best:
                best = depth
                verdicts = {v}
            elif depth == best:
                verdicts.add(v)
    if best < 0:
        return {True}
    return verdicts


class Expect:
    """What the model allows for one command."""

    def __init__(self, codes, *, mark=False, closes=False, note=""):
        self.codes = set(codes)  # acceptable final codes; an entry may be a class like "4xx"/"5xx"
        self.mark = mark  # a 1xx mark precedes the final reply
        self.closes = closes  # the server closes the control connection afterwards
        self.note = note
        self.data = None  # bytes the peer must receive (RETR)
        self.names = None  # set of entry names a listing must contain
        self.pwd = None  # exact directory PWD must report

    def accepts(self, code):
        if code in self.codes:
            return True
        for c in self.codes:
            if len(c) == 3 and c.endswith("xx") and code[:1] == c[0]:
                return True
        return False

    def __repr__(self):
        return f"Expect({sorted(self.codes)}, mark={self.mark}, closes={self.closes}, {self.note})"


class Session:
    """Model state of one control connection.  The tree and the user table are shared."""

    def __init__(self, users, tree):
        self.users = users
        self.tree = tree
        self.auth = None  # None | ("pending", user) | ("logged", user)
        self.cwd = "/"
        self.rnfr = None
        self.rest = 0
        self.listener = False
        self.dc = False
        self.closed = False
        self.ipv6_only = False  # the server listens on an IPv6 address: PASV cannot be served

    # ----------------------------------------------------------------- helpers
    @property
    def user(self):
        return self.auth[1] if self.auth else None

    @property
    def logged(self):
        return self.auth is not None and self.auth[0] == "logged"

    def exists(self, p):
        return p in self.tree

    def is_dir(self, p):
        return p in self.tree and self.tree[p] is None

    def is_file(self, p):
        return p in self.tree and self.tree[p] is not None

    def children(self, p):
        pre = p.rstrip("/") + "/"
        return [q for q in self.tree if q != p and q.startswith(pre) and "/" not in q[len(pre) :]]

    def find_user(self, name):
        anon = None
        for u in self.users:
            if u.login is None and anon is None:
                anon = u
            elif u.login == name:
                return u
        return anon

    def _perm(self, p, flag):
        return perm_lookup(self.user, p, flag)

    # ----------------------------------------------------------------- the transition function
    def expect(self, verb, arg, *, will_connect=True, user_limit_reached=False):
        """Expectation for `verb arg` in the current state (no state change)."""
        v = verb.upper()
        # commands that need no login
        if v == "USER":
            u = self.find_user(arg)
            if u is None or user_limit_reached:
                return Expect({"530"}, note="unknown user / limit")
            if u.login is None or u.password is None:
                return Expect({"230"})
            return Expect({"331"})
        if v == "PASS":
            if self.auth is None:
                return Expect({"503"}, note="PASS without USER")
            if self.logged:
                return Expect({"503"}, note="already logged in")
            return Expect({"230"} if self.user.password == arg else {"530"})
        if v == "QUIT":
            return Expect({"221"}, closes=True)
        if v == "SYST":
            return Expect({"215"})
        if v == "REST":
            if arg.isascii() and arg.isdigit():
                if len(arg) > 300:
                    # an offset no file can have: accepting or refusing it are both fine - what is
                    # not is to end the session over it
                    return Expect({"350", "5xx"}, note="absurdly long restart offset")
                return Expect({"350"})
            return Expect({"5xx"}, note="malformed restart offset")
        known = {"PWD", "CWD", "CDUP", "MKD", "RMD", "DELE", "RNFR", "RNTO", "MLST", "MLSD", "LIST", "RETR", "STOR", "APPE", "TYPE", "PBSZ", "PROT", "PASV", "EPSV", "ABOR"}
        if v not in known:
            return Expect({"502"}, note="unknown verb")
        if not self.logged:
            return Expect({"503"}, note="not logged in")
        if v == "PWD":
            e = Expect({"257"})
            e.pwd = self.cwd
            return e
        if v in ("CWD", "CDUP"):
            p = resolve(self.cwd, arg) if v == "CWD" else parent(self.cwd)
            if not self.is_dir(p):
                return Expect({"550"}, note="no such directory")
            return self._by_perm(p, "r", {"250", "2xx"} if v == "CDUP" else {"250"})
        if v == "MKD":
            p = resolve(self.cwd, arg)
            if self.exists(p):
                return Expect({"550"}, note="exists")
            anc = parent(p)
            while anc != "/" and not self.exists(anc):
                anc = parent(anc)
            if self.is_file(anc):
                return self._by_perm(p, "w", {"4xx", "5xx"}, note="ancestor is a file")
            return self._by_perm(p, "w", {"257"})
        if v == "RMD":
            p = resolve(self.cwd, arg)
            if not self.is_dir(p):
                return Expect({"550"})
            if p == "/":
                return self._by_perm(p, "w", {"250", "4xx", "5xx"}, note="root")
            if self.children(p):
                return self._by_perm(p, "w", {"4xx", "5xx"}, note="not empty")
            return self._by_perm(p, "w", {"250"})
        if v == "DELE":
            p = resolve(self.cwd, arg)
            if not self.is_file(p):
                return Expect({"550"})
            return self._by_perm(p, "w", {"250"})
        if v == "RNFR":
            p = resolve(self.cwd, arg)
            if not self.exists(p):
                return Expect({"550"})
            return self._by_perm(p, "w", {"350"})
        if v == "RNTO":
            if self.rnfr is None:
                return Expect({"503"}, note="RNTO without RNFR")
            p = resolve(self.cwd, arg)
            if self.exists(p):
                return Expect({"550"})
            src = self.rnfr
            bad = (not self.is_dir(parent(p))) or p == src or p.startswith(src.rstrip("/") + "/") or not self.exists(src) or src == "/"
            if bad:
                return self._by_perm(p, "w", {"4xx", "5xx"}, note="backend refuses")
            return self._by_perm(p, "w", {"250"})
        if v == "MLST":
            p = resolve(self.cwd, arg)
            if not self.exists(p):
                return Expect({"550"})
            e = self._by_perm(p, "r", {"250"})
            return e
        if v in ("TYPE",):
            return Expect({"200"} if arg in ("I", "A") else {"5xx"})
        if v == "PBSZ":
            return Expect({"200"})
        if v == "PROT":
            return Expect({"200"} if arg == "P" else {"5xx"})
        if v == "PASV":
            if self.ipv6_only:
                return Expect({"5xx"}, note="PASV on an IPv6 listener")
            return Expect({"227"})
        if v == "EPSV":
            return Expect({"229"} if arg == "" else {"5xx"})
        if v == "ABOR":
            return Expect({"226"})
        # ---- transfers
        if not self.listener:
            return Expect({"503"}, note="no passive listener")
        p = resolve(self.cwd, arg)
        if v in ("LIST", "MLSD"):
            if not self.exists(p):
                return Expect({"550"})
            e = self._by_perm(p, "r", {"2xx"}, mark=True)
            if "2xx" in e.codes:
                e.names = set(q.rsplit("/", 1)[1] for q in self.children(p)) if self.is_dir(p) else set()
                if not (self.dc or will_connect):
                    e.codes = {"425"}
                    e.names = None
            return e
        if v == "RETR":
            if not self.is_file(p):
                return Expect({"550"})
            e = self._by_perm(p, "r", {"2xx"}, mark=True)
            if "2xx" in e.codes:
                if not (self.dc or will_connect):
                    e.codes = {"425"}
                else:
                    e.data = self.tree[p][self.rest :]
                    if self.rest > 2**40:
                        e.codes = e.codes | {"4xx"}  # an offset no backend can seek to
            return e
        if v in ("STOR", "APPE"):
            e0 = self._by_perm(p, "w", {"2xx"}, mark=True)
            if "2xx" not in e0.codes and len(e0.codes) == 1:
                return e0
            if not self.is_dir(parent(p)):
                e0.codes = (e0.codes - {"2xx"}) | {"550"}
                e0.mark = False
                return e0
            if not (self.dc or will_connect):
                e0.codes = (e0.codes - {"2xx"}) | {"425"}
                return e0
            if self.is_dir(p):
                e0.codes = (e0.codes - {"2xx"}) | {"4xx", "5xx"}
                e0.note = "target is a directory"
                return e0
            if self.rest > 0 and not self.exists(p):
                e0.codes = e0.codes | {"4xx", "5xx"}  # backend dependent (C18)
                e0.note = "restart on a missing file"
            if self.rest > 2**40:
                e0.codes = e0.codes | {"4xx"}  # an offset no backend can seek to
            return e0
        raise AssertionError(v)

    def _by_perm(self, p, flag, ok_codes, mark=False, note=""):
        verdicts = self._perm(p, flag)
        codes = set()
        if True in verdicts:
            codes |= set(ok_codes)
        if False in verdicts:
            codes.add("550")
        e = Expect(codes, mark=mark and True in verdicts, note=note)
        e.denied_possible = False in verdicts
        return e

    def apply(self, verb, arg, code, *, stored=None):
        """Advance the state given the final reply `code` actually received (which must have
        been accepted by expect()).  `stored` = payload the peer sent for STOR/APPE."""
        v = verb.upper()
        ok = code[0] == "2" or code[0] == "3"
        keep_rest = v in ("RETR", "STOR", "APPE")
        if v == "USER":
            self.auth = None
            self.rnfr = None  # a pending rename belongs to the previous login
            if code == "230":
                self.auth = ("logged", self.find_user(arg))
            elif code == "331":
                self.auth = ("pending", self.find_user(arg))
            if self.auth is not None:
                self.cwd = self.user.home
        elif v == "PASS":
            if code == "230":
                self.auth = ("logged", self.user)
        elif v == "QUIT":
            self.closed = True
        elif v == "REST":
            self.rest = int(arg[:25]) if code == "350" else 0
        elif v in ("CWD", "CDUP") and ok:
            self.cwd = resolve(self.cwd, arg) if v == "CWD" else parent(self.cwd)
        elif v == "MKD" and ok:
            p = resolve(self.cwd, arg)
            q = p
            while q != "/" and q not in self.tree:
                self.tree[q] = None
                q = parent(q)
        elif v == "RMD" and ok:
            p = resolve(self.cwd, arg)
            if p != "/":
                self.tree.pop(p, None)
        elif v == "DELE" and ok:
            self.tree.pop(resolve(self.cwd, arg), None)
        elif v == "RNFR":
            if ok:
                self.rnfr = resolve(self.cwd, arg)
        elif v == "RNTO":
            if code != "503" and code != "550":
                # the pending rename is consumed by a RNTO that reached the backend
                src, dst = self.rnfr, resolve(self.cwd, arg)
                self.rnfr = None
                if ok and src is not None:
                    moved = {}
                    for q in list(self.tree):
                        if q == src or q.startswith(src.rstrip("/") + "/"):
                            moved[dst + q[len(src) :]] = self.tree.pop(q)
                    self.tree.update(moved)
        elif v in ("PASV", "EPSV"):
            if ok:
                self.listener = True
                self.dc = False
            elif v == "PASV" and self.ipv6_only and self.logged:
                # the listener may well have been opened; only its address cannot be expressed
                # in a 227 reply.  The model follows the implementation here (under-specified).
                self.listener = True
        elif v in ("STOR", "APPE"):
            if ok and stored is not None:
                p = resolve(self.cwd, arg)
                old = self.tree.get(p) or b""
                if self.rest > 2**40:
                    new = old  # not modelled (the backends refuse such an offset)
                elif self.rest:
                    o = self.rest
                    if stored:
                        new = old[:o].ljust(o, b"\0") + stored + old[o + len(stored) :]
                    else:
                        new = old
                elif v == "APPE":
                    new = old + stored
                else:
                    new = stored
                self.tree[p] = new
        if v in TRANSFER and code[0] in "24" and code != "425":
            self.dc = False
        if not keep_rest and v != "REST":
            self.rest = 0
        if v in ("RETR", "STOR", "APPE") and (code[0] == "2" or code in ("451", "426")):
            self.rest = 0  # a transfer consumes the offset

    def clone(self):
        s = Session(self.users, self.tree)
        s.__dict__.update({k: copy.copy(v) for k, v in self.__dict__.items() if k not in ("users", "tree")})
        return s
