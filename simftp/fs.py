"""Storage seam: a spy subclass of the *real* shipped backend.

Every public operation is wrapped inside ``universal_exception`` exactly as a
third-party backend would be.  The spy

* logs every call (seq, session label, op, path, outcome),
* inserts a seeded virtual delay before the call (a genuine scheduling point),
* raises ``OSError`` at the k-th call according to the fault plan,
* optionally returns short reads (legal behaviour, not a fault),
* keeps an open-handle ledger.
"""

from __future__ import annotations

import asyncio
import errno

from aioftp import pathio
from aioftp.common import AbstractAsyncLister
from aioftp.pathio import universal_exception

OPS = ("exists", "is_dir", "is_file", "mkdir", "rmdir", "unlink", "list", "stat", "open", "seek", "read", "write", "close", "rename")


class FsControl:
    def __init__(self, loop, rng):
        self.loop = loop
        self.rng = rng
        self.calls = []  # (n, label, op, path, outcome)
        self.n = 0
        self.per_op = {}
        self.delay = None  # (lo, hi) or None
        self.delay_ops = None  # restrict delays to these ops (None = all)
        self.fail_at = {}  # global call index -> errno
        self.fail_op_at = {}  # (op, k-th call of op) -> errno
        self.fail_all_ops = {}  # op -> errno (repeated fault)
        self.fail_label_at = {}  # (label, k-th call of that session) -> errno
        self.fail_label_from = {}  # label -> (k, errno): every call of that session from its k-th on fails
        self.per_label = {}
        self.on_fault = []  # callables(label, op, n)
        self.only_label = None  # restrict fail_all_ops to one session
        self.enabled = True  # fault plan switch
        self.faults_fired = []
        self.short_reads = False
        self.close_returns = None  # value the spy's close() returns instead of the backend's own
        self.handles = {}  # id(file) -> (label, path, mode, n)
        self.opened = 0
        self.closed = 0
        self.label_of = None  # callable(pathio instance) -> session label
        self.in_flight = 0  # calls currently sleeping inside the backend
        self.max_in_flight = 0
        self.keep_calls = True
        self.delay_log = []  # (vtime, seconds, label) of every injected backend delay

    async def pre(self, inst, op, path):
        self.n += 1
        n = self.n
        k = self.per_op[op] = self.per_op.get(op, 0) + 1
        label = self.label_of(inst) if self.label_of else None
        kl = self.per_label[label] = self.per_label.get(label, 0) + 1
        if self.delay is not None and (self.delay_ops is None or op in self.delay_ops):
            lo, hi = self.delay
            d = lo if hi <= lo else self.rng.uniform(lo, hi)
            self.in_flight += 1
            self.max_in_flight = max(self.max_in_flight, self.in_flight)
            self.delay_log.append((self.loop.time(), d, label))
            try:
                await asyncio.sleep(d)
            finally:
                self.in_flight -= 1
        err = None
        if self.enabled:
            err = self.fail_at.get(n)
            if err is None:
                err = self.fail_op_at.get((op, k))
            if err is None:
                err = self.fail_label_at.get((label, kl))
            if err is None and label in self.fail_label_from and kl >= self.fail_label_from[label][0]:
                err = self.fail_label_from[label][1]
            if err is None and (self.only_label is None or self.only_label == label):
                err = self.fail_all_ops.get(op)
        rec = [n, label, op, str(path) if path is not None else None, "ok"]
        if self.keep_calls:
            self.calls.append(rec)
        if err is not None:
            rec[4] = f"fault:{err}"
            self.faults_fired.append((n, label, op, str(path), err))
            for cb in self.on_fault:
                cb(label, op, n)
            if err == "runtime":
                raise RuntimeError(f"simulated backend bug in {op}")
            if err == "value":
                raise ValueError(f"simulated backend bug in {op}")
            raise OSError(err, f"simulated {errno.errorcode.get(err, err)} in {op}")
        return rec


def make_spy(base_cls, ctl: FsControl):
    """Return a subclass of ``base_cls`` instrumented with ``ctl``."""

    class Spy(base_cls):
        _ctl = ctl

        @universal_exception
        async def exists(self, path):
            await ctl.pre(self, "exists", path)
            return await super().exists(path)

        @universal_exception
        async def is_dir(self, path):
            await ctl.pre(self, "is_dir", path)
            return await super().is_dir(path)

        @universal_exception
        async def is_file(self, path):
            await ctl.pre(self, "is_file", path)
            return await super().is_file(path)

        @universal_exception
        async def mkdir(self, path, *, parents=False, exist_ok=False):
            await ctl.pre(self, "mkdir", path)
            return await super().mkdir(path, parents=parents, exist_ok=exist_ok)

        @universal_exception
        async def rmdir(self, path):
            await ctl.pre(self, "rmdir", path)
            return await super().rmdir(path)

        @universal_exception
        async def unlink(self, path):
            await ctl.pre(self, "unlink", path)
            return await super().unlink(path)

        def list(self, path):
            inner = super().list(path)
            outer = self

            class Lister(AbstractAsyncLister):
                @universal_exception
                async def __anext__(cls):
                    await ctl.pre(outer, "list", path)
                    return await inner.__anext__()

            return Lister(timeout=self.timeout)

        @universal_exception
        async def stat(self, path):
            await ctl.pre(self, "stat", path)
            return await super().stat(path)

        @universal_exception
        async def _open(self, path, mode="rb", *args, **kwargs):
            rec = await ctl.pre(self, "open", path)
            f = await super()._open(path, mode, *args, **kwargs)
            ctl.opened += 1
            ctl.handles[id(f)] = (rec[1], str(path), mode, rec[0], f)
            return f

        @universal_exception
        async def seek(self, file, *args, **kwargs):
            await ctl.pre(self, "seek", None)
            return await super().seek(file, *args, **kwargs)

        @universal_exception
        async def write(self, file, data):
            await ctl.pre(self, "write", None)
            return await super().write(file, data)

        @universal_exception
        async def read(self, file, block_size=-1):
            await ctl.pre(self, "read", None)
            if ctl.short_reads and block_size and block_size > 1:
                block_size = ctl.rng.randint(1, block_size)
            return await super().read(file, block_size)

        @universal_exception
        async def close(self, file):
            # The real close runs first and is not interruptible: none of the shipped
            # backends can be cancelled half-way through close() (PathIO/MemoryPathIO
            # have no await point, AsyncPathIO's executor thread finishes regardless).
            # The seeded delay / injected error come after it; a failing close still
            # releases the handle (as POSIX close() does).
            r = await super().close(file)
            if id(file) in ctl.handles:
                del ctl.handles[id(file)]
                ctl.closed += 1
            await ctl.pre(self, "close", None)
            if ctl.close_returns is not None:
                # an AbstractPathIO implementation is free to return something from close()
                # (e.g. True for "committed"); the shipped ones return None
                return ctl.close_returns
            return r

        @universal_exception
        async def rename(self, source, destination):
            await ctl.pre(self, "rename", f"{source} -> {destination}")
            return await super().rename(source, destination)

    Spy.__name__ = "Spy" + base_cls.__name__
    return Spy


# ---------------------------------------------------------------- tree snapshots


def mem_snapshot(fs_state):
    """Snapshot of a MemoryPathIO state: {path: None (dir) | bytes}."""
    out = {}
    seen = set()

    def walk(nodes, prefix):
        if id(nodes) in seen:  # a corrupted (cyclic) tree must not hang the harness
            out[prefix + "/<cycle>"] = None
            return
        seen.add(id(nodes))
        for node in nodes:
            p = prefix + "/" + node.name if node.name != "/" else ""
            if node.type == "dir":
                out[p or "/"] = None
                walk(node.content, p)
            else:
                out[p] = bytes(node.content.getbuffer())

    walk(fs_state, "")
    return out


def mem_populate(fs_state, tree, mtime=None):
    """Fill a MemoryPathIO state from {path: None|bytes} (parents are created)."""
    import io

    root = fs_state[0]

    def get_dir(parts):
        node = root
        for part in parts:
            for ch in node.content:
                if ch.name == part:
                    node = ch
                    break
            else:
                new = pathio.Node("dir", part, content=[])
                if mtime is not None:
                    new.mtime = new.ctime = mtime
                node.content.append(new)
                node = new
        return node

    for path in sorted(tree):
        parts = [p for p in path.split("/") if p]
        if not parts:
            continue
        if tree[path] is None:
            get_dir(parts)
        else:
            d = get_dir(parts[:-1])
            n = pathio.Node("file", parts[-1], content=io.BytesIO(tree[path]))
            if mtime is not None:
                n.mtime = n.ctime = mtime
            d.content.append(n)
