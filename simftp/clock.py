"""Wall-clock seam.  Installed as ``aioftp.server.time``, ``aioftp.pathio.time`` and
``aioftp.client.datetime``; wall time = epoch + virtual loop time + skew."""

from __future__ import annotations

import datetime as _dt
import time as _time


class SimClock:
    def __init__(self, loop, epoch=1_700_000_000.0, skew=0.0):
        self._loop = loop
        self.epoch = epoch
        self.skew = skew
        self.base = loop.time()

    def time(self):
        return self.epoch + (self._loop.time() - self.base) + self.skew

    def jump(self, delta):
        self.skew += delta

    # pure conversions are delegated
    def localtime(self, secs=None):
        return _time.localtime(self.time() if secs is None else secs)

    def gmtime(self, secs=None):
        return _time.gmtime(self.time() if secs is None else secs)

    def strftime(self, fmt, t=None):
        return _time.strftime(fmt, self.localtime() if t is None else t)

    def monotonic(self):
        return self._loop.time()

    def __getattr__(self, name):
        return getattr(_time, name)


class DatetimeShim:
    """Stands in for the ``datetime`` *module* inside aioftp.client."""

    def __init__(self, clock):
        outer = self
        self._clock = clock

        class datetime(_dt.datetime):
            @classmethod
            def now(cls, tz=None):
                return _dt.datetime.fromtimestamp(outer._clock.time(), tz)

        self.datetime = datetime

    def __getattr__(self, name):
        return getattr(_dt, name)
