"""A World = one simulated run: loop + net + clock + spy backend + server + peers."""

from __future__ import annotations

import asyncio
import contextvars
import hashlib
import logging
import sys

import os

_SRC = os.environ.get("AIOFTP_SRC", "/repo/src")
if _SRC not in sys.path:
    sys.path.insert(0, _SRC)

import aioftp  # noqa: E402
import aioftp.client  # noqa: E402
import aioftp.pathio  # noqa: E402
import aioftp.server  # noqa: E402

from . import clock as simclock  # noqa: E402
from . import core, fs  # noqa: E402

SESSION = contextvars.ContextVar("sim_session", default=None)


class LogCapture(logging.Handler):
    def __init__(self):
        super().__init__(level=logging.DEBUG)
        self.records = []

    def emit(self, record):
        self.records.append(record)


class World:
    def __init__(self, seed, *, max_steps=400_000, max_vtime=1e7, epoch=1_700_000_000.0, capture_logs=True, log_level=logging.WARNING):
        self.seed = seed
        self.loop = core.SimLoop(seed, max_steps=max_steps, max_vtime=max_vtime)
        self.net = self.loop.net
        self.net.label_ctx = SESSION.get
        self.rng = self.loop.rng
        self.clock = simclock.SimClock(self.loop, epoch=epoch)
        self.fsctl = fs.FsControl(self.loop, self.rng("fs"))
        self.fsctl.label_of = self._label_of_pathio
        self.server = None
        self.outcome = None  # "ok" | "deadlock" | "budget" | "error:<type>"
        self.error = None
        self.probes = {}
        self._saved = {}
        self._log = None
        self._capture_logs = capture_logs
        self._log_level = log_level
        self._installed = False

    # ------------------------------------------------------------ install / restore
    def install(self):
        assert not self._installed
        self._installed = True
        asyncio.set_event_loop(self.loop)
        self._saved["open_connection"] = aioftp.client.open_connection
        aioftp.client.open_connection = asyncio.open_connection
        self._saved["server.time"] = aioftp.server.time
        self._saved["pathio.time"] = aioftp.pathio.time
        self._saved["client.datetime"] = aioftp.client.datetime
        aioftp.server.time = self.clock
        aioftp.pathio.time = self.clock
        aioftp.client.datetime = simclock.DatetimeShim(self.clock)
        if self._capture_logs:
            self._log = LogCapture()
            self._log_saved = []
            for name in ("aioftp.server", "aioftp.client", "asyncio"):
                lg = logging.getLogger(name)
                self._log_saved.append((lg, lg.level, lg.propagate, list(lg.handlers)))
                lg.handlers = [self._log]
                lg.setLevel(self._log_level)
                lg.propagate = False

    def restore(self):
        if not self._installed:
            return
        self._installed = False
        aioftp.client.open_connection = self._saved["open_connection"]
        aioftp.server.time = self._saved["server.time"]
        aioftp.pathio.time = self._saved["pathio.time"]
        aioftp.client.datetime = self._saved["client.datetime"]
        if self._log is not None:
            for lg, level, prop, handlers in self._log_saved:
                lg.handlers = handlers
                lg.setLevel(level)
                lg.propagate = prop
        try:
            # drop everything still scheduled; tasks left pending are garbage
            self.loop._ready.clear()
            self.loop._scheduled.clear()
            self.loop.close()
        except Exception:
            pass
        asyncio.set_event_loop(None)

    def __enter__(self):
        self.install()
        return self

    def __exit__(self, *exc):
        self.restore()

    # ------------------------------------------------------------ server
    def _label_of_pathio(self, inst):
        lab = SESSION.get()
        if lab is not None:
            return lab
        conn = getattr(inst, "connection", None)
        if conn is None:
            return None
        try:
            tr = conn.command_connection.writer.transport
            return tr.conn.label
        except Exception:
            return None

    def make_server(self, users=None, *, backend=aioftp.MemoryPathIO, spy=True, **kw):
        factory = fs.make_spy(backend, self.fsctl) if spy else backend
        self.backend_cls = factory
        self.server = aioftp.Server(users, path_io_factory=factory, **kw)
        return self.server

    @property
    def fs_state(self):
        st = self.server.path_io_factory.state
        if st is None:
            # instantiate once so that the shared state exists before any session
            self.server.path_io_factory(timeout=None, connection=None)
            st = self.server.path_io_factory.state
        return st

    def snapshot(self):
        return fs.mem_snapshot(self.fs_state)

    def populate(self, tree, mtime=None):
        fs.mem_populate(self.fs_state, tree, mtime=mtime)

    # ------------------------------------------------------------ running
    def run(self, coro):
        try:
            res = self.loop.run_until_complete(coro)
            self.outcome = "ok"
            return res
        except core.SimDeadlock as e:
            self.outcome = "deadlock"
            self.error = e
        except core.SimBudget as e:
            self.outcome = "budget"
            self.error = e
        except core.SimSpin as e:
            import traceback

            self.outcome = "spin"
            self.error = e
            self.spin_frames = [(f.filename, f.lineno, f.name) for f in traceback.extract_tb(e.__traceback__)][-12:]
        except Exception as e:  # harness or scenario error
            self.outcome = "error:" + type(e).__name__
            self.error = e
        finally:
            if self.net.harness_errors:
                self.outcome = "error:harness"
                self.error = RuntimeError("simulator error:\n" + self.net.harness_errors[0])
        return None

    def spawn(self, coro, label=None):
        """Create a task running under the given session label."""
        if label is None:
            return self.loop.create_task(coro)
        ctx = contextvars.copy_context()
        ctx.run(SESSION.set, label)
        return self.loop.create_task(coro, context=ctx)

    def probe(self, name, n=1):
        self.probes[name] = self.probes.get(name, 0) + n

    # ------------------------------------------------------------ observation
    def digest(self, extra=None):
        h = hashlib.sha256()
        for rec in self.net.log:
            h.update(repr(rec).encode())
        h.update(repr(self.loop.steps).encode())
        h.update(repr(round(self.loop.time(), 9)).encode())
        masks = [x for m in getattr(self, "digest_masks", ()) for x in (m, os.path.basename(m))]
        for c in self.fsctl.calls:
            t = repr(tuple(c))
            for m in masks:  # e.g. the randomly named scratch directory of a filesystem backend
                t = t.replace(m, "<scratch>")
            h.update(t.encode())
        if extra is not None:
            t = repr(extra)
            for m in masks:
                t = t.replace(m, "<scratch>")
            h.update(t.encode())
        return h.hexdigest()[:16]

    def log_records(self):
        return [] if self._log is None else self._log.records

    def dispatcher_exceptions(self):
        out = []
        for r in self.log_records():
            if r.name == "aioftp.server" and r.levelno >= logging.ERROR:
                et = r.exc_info[0].__name__ if r.exc_info else None
                ev = repr(r.exc_info[1]) if r.exc_info else None
                out.append((r.getMessage(), et, ev))
        return out

    # ------------------------------------------------------------ ledger
    def server_tasks(self, exclude=()):
        return [t for t in asyncio.all_tasks(self.loop) if t not in exclude and not t.done()]

    def ledger(self):
        """Resources held on the server side right now."""
        net = self.net
        open_srv = [t for t in net.transports if t.side == "s" and not t._lost_called and not t._closing]
        return {
            "server_transports": [(t.conn.id, t.conn.port, t.conn.label) for t in open_srv],
            "listeners": net.live_listener_ports(),
            "handles": [(v[0], v[1], v[2]) for v in self.fsctl.handles.values()],
            "connections": len(self.server.connections) if self.server is not None and hasattr(self.server, "connections") else 0,
        }
