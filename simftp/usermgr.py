"""User managers for the simulated server.

`AbstractUserManager` is aioftp's documented extension point; its three methods are
coroutines so that an implementation can consult a database or a directory service.  The
shipped `MemoryUserManager` never suspends, which hides every interleaving between the login
commands and whatever else the session is doing.  Two stand-ins make those schedules
reachable, both driven by the world's seeded PRNG and the virtual clock:

* ``slow``   - MemoryUserManager whose calls suspend for a seeded virtual delay first;
* ``digest`` - a manager written against the abstract interface only: it keeps salted
  digests, hands out `User` objects *without* a clear-text password and answers
  PASSWORD_REQUIRED for them (and suspends like ``slow``).

On command sequences sent one at a time both must be indistinguishable from the stock one.
"""

from __future__ import annotations

import asyncio
import hashlib

from .world import aioftp

DELAYS = (0.0, 0.0, 0.0005, 0.01, 0.2)


def _digest(login, password):
    return hashlib.sha256(f"salt:{login}:{password}".encode("utf-8", "surrogatepass")).hexdigest()


def build(kind, users, rnd, delays=DELAYS):
    """kind in {None, "memory", "slow", "digest"}; returns what Server(users=...) accepts"""
    if kind in (None, "memory"):
        return users
    stats = {"calls": 0, "suspended": 0}

    async def pause():
        stats["calls"] += 1
        d = rnd.choice(delays)
        if d:
            stats["suspended"] += 1
        await asyncio.sleep(d)

    Base = aioftp.server.MemoryUserManager
    R = aioftp.AbstractUserManager.GetUserResponse

    if kind == "slow":

        class SlowUserManager(Base):
            async def get_user(self, login):
                await pause()
                return await super().get_user(login)

            async def authenticate(self, user, password):
                await pause()
                return await super().authenticate(user, password)

            async def notify_logout(self, user):
                await pause()
                return await super().notify_logout(user)

        m = SlowUserManager(users)
        m.sim_stats = stats
        return m

    if kind == "digest":

        class DigestUserManager(aioftp.AbstractUserManager):
            def __init__(self, users):
                super().__init__()
                self.digests = {}
                self.users = []
                for u in users or [aioftp.User()]:
                    if u.password is not None:
                        self.digests[u.login] = _digest(u.login, u.password)
                        u = aioftp.User(
                            u.login,
                            None,
                            base_path=u.base_path,
                            home_path=u.home_path,
                            permissions=u.permissions,
                            maximum_connections=u.maximum_connections,
                            read_speed_limit=u.read_speed_limit,
                            write_speed_limit=u.write_speed_limit,
                            read_speed_limit_per_connection=u.read_speed_limit_per_connection,
                            write_speed_limit_per_connection=u.write_speed_limit_per_connection,
                        )
                    self.users.append(u)
                self.slots = {u: aioftp.server.AvailableConnections(u.maximum_connections) for u in self.users}

            async def get_user(self, login):
                await pause()
                user = None
                for u in self.users:
                    if u.login is None and user is None:
                        user = u
                    elif u.login == login:
                        user = u
                        break
                if user is None:
                    return R.ERROR, None, "no such username"
                if self.slots[user].locked():
                    return R.ERROR, user, f"too much connections for {user.login or 'anonymous'!r}"
                self.slots[user].acquire()
                if user.login is None:
                    return R.OK, user, "anonymous login"
                if user.login in self.digests:
                    return R.PASSWORD_REQUIRED, user, "password required"
                return R.OK, user, "login without password"

            async def authenticate(self, user, password):
                await pause()
                return self.digests.get(user.login) == _digest(user.login, password)

            async def notify_logout(self, user):
                await pause()
                self.slots[user].release()

        m = DigestUserManager(users)
        m.sim_stats = stats
        return m
    raise ValueError(kind)
