"""Scripted peers running on the simulated loop.

``RawPeer`` sends exact bytes on the control channel and records exact replies and
(virtual) times; it parses replies by the RFC 959 rule only (``NNN-`` ... ``NNN ``),
never with aioftp's own parser.
"""

from __future__ import annotations

import asyncio
import re


class PeerGone(Exception):
    pass


class ReplyTimeout(Exception):
    pass


class RawPeer:
    def __init__(self, world, label, host="127.0.0.1", port=None, *, reply_timeout=30.0, encoding="utf-8"):
        self.world = world
        self.loop = world.loop
        self.label = label
        self.host = host
        self.port = port
        self.reply_timeout = reply_timeout
        self.encoding = encoding
        self.reader = None
        self.writer = None
        self.transcript = []  # (vtime, "C"|"S"|"!", text)
        self.replies = []  # (code, lines) of every complete reply received
        self.data = None  # (reader, writer) of the current data connection
        self.passive_port = None
        self.closed_by_server = False
        self.control_eof_at = None
        self.data_conns = []

    # ---------------------------------------------------------------- control
    async def connect(self, greeting=True):
        port = self.port if self.port is not None else self.world.server.server_port
        self.reader, self.writer = await asyncio.open_connection(self.host, port)
        self.ctl_transport = self.writer.transport
        if greeting:
            return await self.reply()

    def note(self, kind, text):
        self.transcript.append((round(self.loop.time(), 9), kind, text))

    async def send_raw(self, data: bytes):
        self.note("C", data.decode(self.encoding, "backslashreplace").rstrip("\r\n"))
        self.writer.write(data)
        try:
            await self.writer.drain()
        except ConnectionError:
            pass

    async def send(self, line: str):
        await self.send_raw((line + "\r\n").encode(self.encoding))

    async def _readline(self, timeout):
        try:
            if timeout is None:
                line = await self.reader.readline()
            else:
                line = await asyncio.wait_for(self.reader.readline(), timeout)
        except asyncio.TimeoutError:
            raise ReplyTimeout() from None
        except ConnectionError as e:
            self.closed_by_server = True
            self.control_eof_at = self.loop.time()
            self.note("!", f"control reset: {type(e).__name__}")
            raise PeerGone("reset") from None
        if not line:
            self.closed_by_server = True
            self.control_eof_at = self.loop.time()
            self.note("!", "control eof")
            raise PeerGone("eof")
        return line

    async def reply(self, timeout=...):
        """Read one complete reply (RFC 959 framing). Returns (code, [lines])."""
        if timeout is ...:
            timeout = self.reply_timeout
        line = (await self._readline(timeout)).decode(self.encoding, "backslashreplace").rstrip("\r\n")
        code = line[:3]
        lines = [line[4:]]
        if line[3:4] == "-":
            end = code + " "
            while True:
                line = (await self._readline(timeout)).decode(self.encoding, "backslashreplace").rstrip("\r\n")
                if line.startswith(end):
                    lines.append(line[4:])
                    break
                lines.append(line)
        self.note("S", f"{code} " + " | ".join(lines))
        self.replies.append((code, lines))
        return code, lines

    async def cmd(self, line, timeout=...):
        await self.send(line)
        return await self.reply(timeout)

    async def no_more_replies(self, window=5.0):
        """True if nothing further arrives on the control channel within the window
        (virtual seconds).  EOF counts as 'nothing' and is recorded."""
        try:
            code, lines = await self.reply(window)
        except ReplyTimeout:
            return True
        except PeerGone:
            return True
        return False

    async def login(self, user="anonymous", password="pw"):
        code, lines = await self.cmd("USER " + user)
        if code == "331":
            code, lines = await self.cmd("PASS " + password)
        return code

    # ---------------------------------------------------------------- passive / data
    async def passive(self, verb="EPSV"):
        code, lines = await self.cmd(verb)
        return self.parse_passive(code, lines)

    def parse_passive(self, code, lines):
        self.passive_port = None
        if code == "229":
            m = re.search(r"\(\|\|\|(\d+)\|\)", lines[-1])
            self.passive_port = int(m.group(1))
        elif code == "227":
            m = re.search(r"\((\d+),(\d+),(\d+),(\d+),(\d+),(\d+)\)", lines[-1])
            self.passive_port = (int(m.group(5)) << 8) | int(m.group(6))
        return code

    async def data_connect(self, limit=2**16):
        r, w = await asyncio.open_connection(self.host, self.passive_port, limit=limit)
        self.data = (r, w)
        self.data_conns.append(w.transport)
        return r, w

    def data_close(self):
        if self.data is not None:
            self.data[1].close()
            self.data = None

    async def recv_all(self, timeout=None, chunk=65536):
        """Read the data connection until EOF / reset.  Returns (bytes, how)."""
        r, w = self.data
        buf = bytearray()
        how = "eof"
        try:
            while True:
                if timeout is None:
                    b = await r.read(chunk)
                else:
                    b = await asyncio.wait_for(r.read(chunk), timeout)
                if not b:
                    break
                buf += b
        except asyncio.TimeoutError:
            how = "timeout"
        except ConnectionError as e:
            how = "reset:" + type(e).__name__
        return bytes(buf), how

    async def send_all(self, payload: bytes, chunks=None, pauses=None):
        """`pauses[i]` virtual seconds of silence before the i-th chunk (the last entry: before
        whatever is left, or before returning - i.e. before the caller closes)."""
        r, w = self.data
        how = "ok"
        pauses = list(pauses or ())
        try:
            if chunks is None and not pauses:
                w.write(payload)
                await w.drain()
            else:
                pos = 0
                for n in chunks or ():
                    if pos >= len(payload):
                        break
                    if pauses:
                        await asyncio.sleep(pauses.pop(0))
                    w.write(payload[pos : pos + n])
                    pos += n
                    await w.drain()
                if pauses:
                    await asyncio.sleep(pauses.pop(0))
                if pos < len(payload):
                    w.write(payload[pos:])
                    await w.drain()
                if pauses:
                    await asyncio.sleep(pauses.pop(0))
        except ConnectionError as e:
            how = "reset:" + type(e).__name__
        return how

    # ---------------------------------------------------------------- composite transfers
    async def download(self, verb_line, *, passive="EPSV", connect="before", data_timeout=None):
        """PASV/EPSV, optional data connect, command, read to EOF, final reply.

        Returns dict(pre=code of passive, mark=1xx code|None, final=code, data=bytes, how=str)."""
        out = {"pre": None, "mark": None, "final": None, "data": b"", "how": None}
        if passive is not None:  # None = reuse the listener opened earlier
            out["pre"] = await self.passive(passive)
        if self.passive_port is None:
            return out
        if connect == "before":
            await self.data_connect()
        code, lines = await self.cmd(verb_line)
        if code[0] != "1":
            out["final"] = code
            self.data_close()
            return out
        out["mark"] = code
        if connect == "after":
            await self.data_connect()
        if connect == "never":
            code, lines = await self.reply()
            out["final"] = code
            return out
        out["data"], out["how"] = await self.recv_all(data_timeout)
        out["data_tr"] = self.data[1].transport
        self.data_close()
        code, lines = await self.reply()
        out["final"] = code
        return out

    async def upload(self, verb_line, payload, *, passive="EPSV", connect="before", chunks=None, data_timeout=None):
        out = {"pre": None, "mark": None, "final": None, "how": None}
        if passive is not None:
            out["pre"] = await self.passive(passive)
        if self.passive_port is None:
            return out
        if connect == "before":
            await self.data_connect()
        code, lines = await self.cmd(verb_line)
        if code[0] != "1":
            out["final"] = code
            self.data_close()
            return out
        out["mark"] = code
        if connect == "after":
            await self.data_connect()
        if connect == "never":
            code, lines = await self.reply()
            out["final"] = code
            return out
        if data_timeout is None:
            out["how"] = await self.send_all(payload, chunks)
        else:
            try:
                out["how"] = await asyncio.wait_for(self.send_all(payload, chunks), data_timeout)
            except asyncio.TimeoutError:
                out["how"] = "timeout"
        out["data_tr"] = self.data[1].transport
        self.data_close()
        code, lines = await self.reply()
        out["final"] = code
        return out

    # ---------------------------------------------------------------- ending
    def vanish(self, how="rst"):
        """The peer disappears: every socket it holds is reset (or closed)."""
        trs = []
        if self.writer is not None:
            trs.append(self.writer.transport)
        trs += self.data_conns
        for tr in trs:
            if how == "rst":
                tr.abort()
            else:
                tr.close()

    def close(self):
        if self.writer is not None:
            self.writer.close()
        self.data_close()

    def codes(self):
        return [c for c, _ in self.replies]
