"""Corpus of scripted sessions.  Together they use every verb and every transfer kind.

Paths contain ``{P}`` (the session's private prefix directory) so that several
scripts can run concurrently on disjoint subtrees.  ``tree(prefix, B)`` is the
pre-populated disk image each script expects (sizes in bytes, None = directory).
"""

from __future__ import annotations


def tree(prefix, B):
    p = prefix
    return {
        p: None,
        f"{p}/a.bin": 3 * B + 5,
        f"{p}/b.bin": B,
        f"{p}/big.bin": 64 * B,
        f"{p}/empty": 0,
        f"{p}/d1": None,
        f"{p}/d1/x": 10,
        f"{p}/d1/y": 2 * B - 1,
        f"{p}/d1/sub": None,
        f"{p}/d2": None,
    }


def _login(user="anonymous", pw="pw"):
    return [["connect"], ["login", user, pw], ["cmd", "CWD {P}"]]


def scripts(B=16):
    """name -> list of ops (after which the session is still connected unless it QUITs)."""
    L = _login()
    S = {}
    S["walk"] = L + [["cmd", "PWD"], ["cmd", "CWD d1"], ["cmd", "PWD"], ["cmd", "CDUP"], ["cmd", "CWD d1/sub"], ["cmd", "CWD ../.."], ["cmd", "PWD"], ["cmd", "CWD nope"], ["quit"]]
    S["mkd_rmd"] = L + [["cmd", "MKD n1"], ["cmd", "MKD n1/n2/n3"], ["cmd", "RMD n1/n2/n3"], ["cmd", "RMD n1"], ["cmd", "RMD n1/n2"], ["cmd", "RMD n1"], ["cmd", "MKD d1"], ["quit"]]
    S["stor_retr"] = L + [["put", "STOR {P}/new.bin", 2 * B + 3], ["get", "RETR {P}/new.bin"], ["quit"]]
    S["stor_pasv_after"] = L + [["put", "STOR up2", B + 1, {"p": "PASV", "c": "after"}], ["cmd", "MLST up2"]]
    S["appe"] = L + [["put", "APPE b.bin", B + 2], ["get", "RETR b.bin", {"p": "PASV"}], ["put", "APPE fresh", 3]]
    S["rest_retr"] = L + [["get", "RETR a.bin", {"rest": B + 3}], ["get", "RETR a.bin", {"rest": 0, "c": "after"}], ["quit"]]
    S["rest_stor"] = L + [["put", "STOR a.bin", B, {"rest": 5}], ["get", "RETR a.bin"], ["put", "APPE b.bin", 4, {"rest": 2}]]
    S["mlsd_list"] = L + [["get", "MLSD"], ["get", "LIST d1", {"p": "PASV"}], ["get", "MLSD d1/sub", {"c": "after"}], ["get", "LIST a.bin"], ["quit"]]
    S["mlst"] = L + [["cmd", "MLST a.bin"], ["cmd", "MLST d1"], ["cmd", "MLST"], ["cmd", "MLST missing"]]
    S["rename"] = L + [["cmd", "RNFR d1/x"], ["cmd", "RNTO d2/x2"], ["cmd", "RNTO d2/x3"], ["cmd", "RNFR d2"], ["cmd", "RNTO d3"], ["cmd", "RNFR nope"], ["get", "MLSD d3"], ["quit"]]
    S["dele"] = L + [["cmd", "DELE d1/x"], ["cmd", "DELE d1/x"], ["cmd", "DELE d1"], ["cmd", "DELE empty"], ["get", "MLSD"]]
    S["errors"] = L + [["get", "RETR missing"], ["put", "STOR nodir/f", 5], ["get", "RETR d1"], ["cmd", "RMD a.bin"], ["cmd", "FOO bar"], ["cmd", "REST x"], ["cmd", "TYPE E"], ["quit"]]
    S["pasv_reuse"] = L + [["pasv", "EPSV"], ["pasv", "PASV"], ["get", "RETR b.bin"], ["get", "RETR d1/x", {"p": "PASV"}], ["pasv", "EPSV"], ["dconnect"], ["pasv", "EPSV"], ["dclose"]]
    S["misc"] = L + [["cmd", "SYST"], ["cmd", "TYPE I"], ["cmd", "TYPE A"], ["cmd", "PBSZ 0"], ["cmd", "PROT P"], ["cmd", "PROT C"], ["cmd", "ABOR"], ["cmd", "REST 7"], ["cmd", "NOOP"], ["quit"]]
    S["relogin"] = [["connect"], ["cmd", "PWD"], ["login", "anonymous"], ["cmd", "PWD"], ["login", "u1", "pw1"], ["cmd", "CWD {P}"], ["get", "RETR b.bin"], ["login", "anonymous"], ["cmd", "PWD"], ["quit"]]
    S["stor_on_dir"] = L + [["put", "STOR d1", B], ["cmd", "PWD"], ["get", "RETR b.bin"]]
    S["big_retr"] = L + [["get", "RETR a.bin", {"p": "PASV"}], ["get", "RETR d1/y"], ["get", "RETR empty"]]
    S["big_stor"] = L + [["put", "STOR big", 5 * B], ["put", "STOR zero", 0], ["put", "STOR one", 1, {"c": "after"}]]
    S["no_dconn"] = L + [["pasv", "EPSV"], ["cmd", "TYPE I"], ["pasv", "EPSV"], ["dconnect"], ["cmd", "PWD"]]
    S["idle"] = L + [["cmd", "PWD"]]
    # one passive listener serving several transfers in a row (no PASV / EPSV in between)
    S["listener_reuse"] = L + [["pasv", "EPSV"], ["get", "RETR a.bin", {"p": None}], ["get", "RETR b.bin", {"p": None, "c": "after"}], ["put", "STOR reused.bin", B + 3, {"p": None}], ["get", "MLSD", {"p": None}], ["get", "RETR reused.bin", {"p": None}], ["quit"]]
    # command lines arriving in one segment (the server reads ahead while a handler runs)
    S["pipelined"] = L + [["raw", "PASV\r\nEPSV\r\n"], ["reply"], ["reply"], ["get", "RETR b.bin"], ["raw", "EPSV\r\nNOOP\r\nPASV\r\nEPSV\r\n"], ["reply"], ["reply"], ["reply"], ["reply"], ["raw", "MKD p1\r\nPWD\r\nRMD p1\r\nMLST a.bin\r\nNOOP\r\n"], ["reply"], ["reply"], ["reply"], ["reply"], ["reply"], ["quit"]]
    return S


def extra_scripts(B=16):
    """Scripts whose outcome depends on timing by design (used by C12 only, never compared
    between runs): a download whose peer never reads the data connection, so that the server's
    transfer worker sits in a blocked write with unsent bytes when the session is cut."""
    L = _login()
    return {
        "stalled_reader": L + [["get_stalled", "RETR big.bin", 20.0], ["close"]],
        # many pipelined commands and QUIT while the peer reads nothing: the replies queue up
        # behind a blocked write, the dispatcher waits for the queue to drain - and then the peer
        # goes away
        "flood_quit": L + [["raw", "PWD\r\n" * 40 + "QUIT\r\n"], ["sleep", 20.0], ["close"]],
        # a command line the server's reader refuses (undecodable bytes / longer than the stream
        # limit) with a passive listener open, more lines behind it, then the peer goes away
        "bad_line": L + [["pasv", "EPSV"], ["raw", "CWD /caf\xe9\r\n"], ["sleep", 2.0], ["raw", "PWD\r\n"], ["sleep", 2.0], ["close"]],
        "long_line": L + [["pasv", "PASV"], ["raw", "CWD /" + "a" * 70000 + "\r\nNOOP\r\n"], ["sleep", 3.0], ["close"]],
    }


USERS = [
    {"login": None},
    {"login": "u1", "password": "pw1"},
    {"login": "u2"},
]
