#!/bin/bash
# usage: tools/seedtest.sh <patch.diff> <Cxx> [Cyy ...]   -- apply a seeded change to /repo, run the checks, undo it
set -u
patch="$1"; shift
cd /repo || exit 2
if ! git apply --check "$patch" 2>/dev/null; then
  if git apply --3way --check "$patch" 2>/dev/null; then echo "(3way)"; else echo "PATCH DOES NOT APPLY: $patch"; exit 3; fi
fi
git apply "$patch" || git apply --3way "$patch" || exit 3
trap 'git -C /repo reset -q --hard HEAD' EXIT
cd /verif
for id in "$@"; do
  out=$(/venv/bin/python checks/run.py "$id" --tier "${TIER:-quick}" 2>&1)
  rc=$?
  echo "== $id exit $rc"
  echo "$out" | grep -E "^violation:|^KNOWN|HARNESS" | cut -c1-300 | head -${LINES_MAX:-6}
done
