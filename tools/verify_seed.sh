#!/bin/bash
# usage: tools/verify_seed.sh <Cxx> <suffix ''|2> -- confirm a sub-agent's seeded change in its scratch worktree:
#   suite still "335 passed" with the change, demo fails with it and passes without it.  Prints one JSON line.
id="$1"; sfx="${2:-}"
wt=/tmp/wt_$id
cd $wt || exit 2
git checkout -q -- . 
patch=_out/patch$sfx.diff; demo=_out/demo$sfx.py
git apply "$patch" || { echo "{\"id\":\"$id$sfx\",\"error\":\"patch does not apply\"}"; exit 1; }
suite=$(PYTHONPATH=$wt/src timeout 900 /venv/bin/python -m pytest -q -p no:cacheprovider 2>&1 | tail -1)
PYTHONPATH=$wt/src timeout 120 /venv/bin/python $demo >/tmp/demo_$id$sfx.with 2>&1; with=$?
git checkout -q -- .
PYTHONPATH=$wt/src timeout 120 /venv/bin/python $demo >/tmp/demo_$id$sfx.without 2>&1; without=$?
echo "{\"id\":\"$id$sfx\",\"suite\":\"$suite\",\"demo_with\":$with,\"demo_without\":$without}"
