#!/venv/bin/python
"""keep_seed.py <Cxx> <suffix ''|2> <caught_by text> -- store a confirmed seeded change under /verif/seeded/"""
import json, os, shutil, sys
pid, sfx, caught = sys.argv[1], sys.argv[2], sys.argv[3]
wt = f"/tmp/wt_{pid}/_out"
n = "1" if sfx == "" else sfx
dst = f"/verif/seeded/{pid}-{n}"
os.makedirs(dst, exist_ok=True)
shutil.copy(f"{wt}/patch{sfx}.diff", f"{dst}/patch.diff")
shutil.copy(f"{wt}/demo{sfx}.py", f"{dst}/demo.py")
shutil.copy(f"{wt}/notes{sfx}.md", f"{dst}/notes.md")
ver = None
for line in open("/tmp/verify_seeds.log"):
    try:
        d = json.loads(line)
    except Exception:
        continue
    if d.get("id") == pid + sfx:
        ver = d
meta = {
    "property": pid,
    "source": "independent sub-agent given only the property text and a scratch worktree",
    "what_it_needs_to_manifest": "see notes.md",
    "confirmed": {"test_suite_with_patch": ver and ver.get("suite"), "demo_exit_with_patch": ver and ver.get("demo_with"), "demo_exit_without_patch": ver and ver.get("demo_without"), "how": "tools/verify_seed.sh in the scratch worktree (PYTHONPATH=<worktree>/src): pytest, demo with the change, demo without it"},
    "checked_with": "tools/seedtest.sh <patch> <checks> (git apply in /repo, quick tier, git checkout -- .)",
    "caught_by": caught,
}
json.dump(meta, open(f"{dst}/meta.json", "w"), indent=1)
print("kept", dst)
