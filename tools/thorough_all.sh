#!/bin/bash
# runs every check's thorough tier with a wall budget (default 240 s each) and prints one line per check
cd "$(dirname "$0")/.."
for id in ${IDS:-C01 C02 C03 C04 C05 C06 C07 C08 C09 C10 C11 C12 C13 C14 C15 C16 C17 C18 C19 C20}; do
  out=$(/venv/bin/python checks/run.py $id --tier thorough --budget ${BUDGET:-240} 2>&1); rc=$?
  echo "$id thorough exit=$rc :: $(echo "$out" | grep -E "^C[0-9][0-9]:" | tail -1)"
  echo "$out" | grep -E "^violation:|^KNOWN|HARNESS" | cut -c1-300 | head -5
done
