#!/bin/bash
# run every registered check's quick tier under several VERIF_SEED values; print one line per run
seeds="${SEEDS:-1 2 3 4 5}"
ids=$(/venv/bin/python -c "import json; print(' '.join(c['property_id'] for c in json.load(open('MANIFEST.json'))['checks']))")
for id in ${IDS:-$ids}; do
  for s in $seeds; do
    out=$(VERIF_SEED=$s /venv/bin/python checks/run.py $id --tier quick 2>&1); rc=$?
    echo "$id seed=$s exit=$rc :: $(echo "$out" | tail -1)"
    if [ $rc -ne 0 ]; then echo "$out" | grep -E "^violation|HARNESS|Error" | cut -c1-300 | head -5; fi
  done
done
