#!/venv/bin/python
"""keep_seed2.py <Cxx> <suffix ''|2> -- store a confirmed round-2 seeded change (/tmp/w2_<Cxx>/_out) as seeded/<Cxx>-3|4"""
import json, os, shutil, sys
pid, sfx = sys.argv[1], sys.argv[2]
wt = f"/tmp/w2_{pid}/_out"
n = "3" if sfx == "" else "4"
dst = f"/verif/seeded/{pid}-{n}"
os.makedirs(dst, exist_ok=True)
shutil.copy(f"{wt}/patch{sfx}.diff", f"{dst}/patch.diff")
if os.path.exists(f"{wt}/patch{sfx}.orig.diff"):
    shutil.copy(f"{wt}/patch{sfx}.orig.diff", f"{dst}/patch.orig.diff")
shutil.copy(f"{wt}/demo{sfx}.py", f"{dst}/demo.py")
shutil.copy(f"{wt}/notes{sfx}.md", f"{dst}/notes.md")
ver = None
for line in open("/tmp/verify_seeds2b.log"):
    try:
        d = json.loads(line)
    except Exception:
        continue
    if d.get("id") == "R2-" + pid + sfx:
        ver = d
meta = {
    "property": pid,
    "round": 2,
    "source": "independent sub-agent given only the property text, a focus hint (multi-step / timing / fault dependent changes) and a scratch worktree",
    "what_it_needs_to_manifest": "see notes.md",
    "confirmed": {"test_suite_with_patch": ver and ver.get("suite"), "demo_exit_with_patch": ver and ver.get("demo_with"), "demo_exit_without_patch": ver and ver.get("demo_without"), "how": "tools/verify_seed2.sh in the scratch worktree at /repo HEAD 57fb2d7 (PYTHONPATH=<worktree>/src): pytest, demo with the change, demo without it"},
    "checked_with": "tools/seedtest_wt.sh <worktree> <patch> <checks> (AIOFTP_SRC points the checks at the scratch worktree; /repo is never touched)",
    "rebased": os.path.exists(f"{wt}/patch{sfx}.orig.diff"),
}
json.dump(meta, open(f"{dst}/meta.json", "w"), indent=1)
print("kept", dst)
