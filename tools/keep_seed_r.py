#!/venv/bin/python
"""keep_seed6.py <round> <Cxx> <suffix ''|2> <n> <head> -- store a confirmed seeded change (/tmp/w<round>_<Cxx>/_out) as seeded/<Cxx>-<n>"""
import json, os, shutil, sys
rnd, pid, sfx, n, head = sys.argv[1], sys.argv[2], sys.argv[3], sys.argv[4], sys.argv[5]
wt = f"/tmp/w{rnd}_{pid}/_out"
dst = f"/verif/seeded/{pid}-{n}"
os.makedirs(dst, exist_ok=True)
shutil.copy(f"{wt}/patch{sfx}.diff", f"{dst}/patch.diff")
if os.path.exists(f"{wt}/patch{sfx}.orig.diff"):
    shutil.copy(f"{wt}/patch{sfx}.orig.diff", f"{dst}/patch.orig.diff")
shutil.copy(f"{wt}/demo{sfx}.py", f"{dst}/demo.py")
if os.path.exists(f"{wt}/demo{sfx}.orig.py"):
    shutil.copy(f"{wt}/demo{sfx}.orig.py", f"{dst}/demo.orig.py")
shutil.copy(f"{wt}/notes{sfx}.md", f"{dst}/notes.md")
ver = None
for line in open(f"/tmp/verify_seeds{rnd}b.log"):
    try:
        d = json.loads(line)
    except Exception:
        continue
    if d.get("id") == f"w{rnd}-" + pid + sfx:
        ver = d
assert ver and ver["demo_with"] != 0 and ver["demo_without"] == 0 and "335 passed" in ver["suite"], ver
hints = {"9": "a change that needs something specific to manifest - an unusual place, a particular history, input or moment", "8": "async mechanics and ordering - awaits moved, shields, timeouts, cancellation, narrowed clean-up blocks", "6": "changes that need scale, repetition or the passage of time", "7": "changes that only show under a non-default configuration or in the interplay of two features"}
meta = {
    "property": pid,
    "round": int(rnd),
    "source": f"independent sub-agent given only the property text, a focus hint ({hints[rnd]}) and a scratch worktree",
    "what_it_needs_to_manifest": "see notes.md",
    "confirmed": {"test_suite_with_patch": ver.get("suite"), "demo_exit_with_patch": ver.get("demo_with"), "demo_exit_without_patch": ver.get("demo_without"), "how": f"tools/verify_seed_r.sh in the scratch worktree at /repo HEAD {head} (PYTHONPATH=<worktree>/src): pytest, demo with the change, demo without it"},
    "checked_with": "tools/seedtest_wt.sh <worktree> <patch> <checks> (AIOFTP_SRC points the checks at the scratch worktree; /repo is never touched)",
    "rebased": os.path.exists(f"{wt}/patch{sfx}.orig.diff"),
}
if ver.get("note"):
    meta["confirmed"]["note"] = ver["note"]
json.dump(meta, open(f"{dst}/meta.json", "w"), indent=1)
print("kept", dst)
