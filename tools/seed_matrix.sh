#!/bin/bash
# Re-confirms every kept seeded change at /repo HEAD and runs the quick tier of its property's
# check against it, in a scratch worktree (created under /tmp, removed afterwards) through
# AIOFTP_SRC.  Writes seeded/MATRIX.md.  /repo itself is never touched.
#   SKIP_CONFIRM=1  skips the suite / demonstration part
set -u
wt=/tmp/wt_matrix_$$
git -C /repo worktree add -q --detach "$wt" HEAD || exit 2
trap "git -C /repo worktree remove --force $wt; rm -rf /tmp/ev_matrix_$$" EXIT
out=${OUT:-/verif/seeded/MATRIX.md}
tmp=$out.tmp
echo "# seeded changes x checks (quick tier, /repo $(git -C /repo rev-parse --short HEAD), /verif $(git -C /verif rev-parse --short HEAD))" > $tmp
echo "" >> $tmp
echo "suite = existing test suite with the change applied; demo = exit status of the change's own demonstration with / without the change (1/0 = it shows the breakage and only then); exit = exit status of the check (1 = VIOLATION reported)." >> $tmp
echo "" >> $tmp; echo "| seeded change | suite | demo with/without | check | exit | first violation line |" >> $tmp; echo "|---|---|---|---|---|---|" >> $tmp
cd /verif
for d in ${SEEDS:-seeded/C*-*/}; do
  id=$(basename $d); prop=${id%%-*}
  git -C $wt reset -q --hard HEAD
  if ! git -C $wt apply "/verif/seeded/$id/patch.diff" 2>/dev/null; then
    echo "| $id | - | - | $prop | - | PATCH DOES NOT APPLY |" >> $tmp; continue
  fi
  suite="-"; dw="-"; dwo="-"
  if [ -z "${SKIP_CONFIRM:-}" ]; then
    suite=$(cd $wt && PYTHONPATH=$wt/src timeout 900 /venv/bin/python -m pytest -q -p no:cacheprovider 2>&1 | tail -1 | sed 's/ in [0-9.]*s.*//; s/, [0-9]* warnings\?//')
    (cd $wt && PYTHONPATH=$wt/src timeout 300 /venv/bin/python /verif/seeded/$id/demo.py >/dev/null 2>&1); dw=$?
  fi
  res=$(AIOFTP_SRC=$wt/src VERIF_EVIDENCE_DIR=/tmp/ev_matrix_$$ /venv/bin/python checks/run.py $prop --tier quick 2>&1); rc=$?
  if [ -z "${SKIP_CONFIRM:-}" ]; then
    git -C $wt reset -q --hard HEAD
    (cd $wt && PYTHONPATH=$wt/src timeout 300 /venv/bin/python /verif/seeded/$id/demo.py >/dev/null 2>&1); dwo=$?
  fi
  first=$(echo "$res" | grep -m1 "^violation:" | cut -c1-150 | tr '|' '/')
  echo "| $id | $suite | $dw/$dwo | $prop | $rc | ${first:-"-"} |" >> $tmp
  echo "$id suite=[$suite] demo=$dw/$dwo exit=$rc"
done
mv $tmp $out
