#!/bin/bash
# Runs every kept seeded change against the quick tier of its property's check, in a scratch
# worktree of /repo HEAD (created under /tmp, removed afterwards), through AIOFTP_SRC.
# Writes seeded/MATRIX.md.  /repo itself is never touched.
set -u
wt=/tmp/wt_matrix_$$
git -C /repo worktree add -q --detach "$wt" HEAD || exit 2
trap "git -C /repo worktree remove --force $wt" EXIT
out=/verif/seeded/MATRIX.md
echo "# seeded changes x checks (quick tier, $(git -C /repo rev-parse --short HEAD))" > $out
echo "" >> $out; echo "| seeded change | check | exit | first violation line |" >> $out; echo "|---|---|---|---|" >> $out
cd /verif
for d in seeded/C*-*/; do
  id=$(basename $d); prop=${id%%-*}
  git -C $wt reset -q --hard HEAD
  if ! (git -C $wt apply "/verif/$d/patch.diff" 2>/dev/null || git -C $wt apply --3way "/verif/$d/patch.diff" 2>/dev/null); then
    echo "| $id | $prop | - | PATCH DOES NOT APPLY |" >> $out; continue
  fi
  res=$(AIOFTP_SRC=$wt/src VERIF_EVIDENCE_DIR=/tmp/ev_matrix_$$ /venv/bin/python checks/run.py $prop --tier quick 2>&1); rc=$?
  first=$(echo "$res" | grep -m1 "^violation:" | cut -c1-140 | tr '|' '/')
  echo "| $id | $prop | $rc | ${first:-"-"} |" >> $out
  echo "$id exit=$rc"
done
rm -rf /tmp/ev_matrix_$$
