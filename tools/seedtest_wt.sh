#!/bin/bash
# usage: tools/seedtest_wt.sh <worktree> <patch> <Cxx> [...] -- like seedtest.sh but on a scratch worktree via AIOFTP_SRC (never touches /repo)
wt="$1"; patch="$2"; shift; shift
cd "$wt" || exit 2
git reset -q --hard HEAD; git apply "$patch" || git apply --3way "$patch" || { echo "PATCH DOES NOT APPLY"; exit 3; }
trap "git -C $wt reset -q --hard HEAD" EXIT
cd /verif
for id in "$@"; do
  out=$(AIOFTP_SRC=$wt/src VERIF_EVIDENCE_DIR=/tmp/ev_seedtest /venv/bin/python checks/run.py "$id" --tier "${TIER:-quick}" ${BUDGET:+--budget $BUDGET} 2>&1)
  rc=$?
  echo "== $id exit $rc"
  echo "$out" | grep -E "^violation:|^KNOWN|HARNESS" | cut -c1-300 | head -${LINES_MAX:-6}
done
