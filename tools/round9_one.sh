#!/bin/bash
# usage: tools/round9_one.sh <Cxx>   -- confirm the seeded change in /tmp/w9_<Cxx>/_out (suite, demonstration with /
# without it), point the quick tier of its own check at it through AIOFTP_SRC, print one JSON line and the first
# violation lines.  /repo is never touched.  Keeping the change (tools/keep_seed_r.py) is a separate step.
id="$1"; wt=/tmp/w9_$id
cd /verif || exit 2
WT_PREFIX=w9 tools/verify_seed_r.sh "$id" | tee -a /tmp/verify_seeds9b.log
(cd $wt && git checkout -q -- src && git apply _out/patch.diff) || exit 3
AIOFTP_SRC=$wt/src VERIF_EVIDENCE_DIR=/tmp/ev_seedtest /venv/bin/python checks/run.py "$id" --tier quick > /tmp/full9_$id.log 2>&1
echo "$id check exit=$?"
grep -E "^violation:|HARNESS" /tmp/full9_$id.log | head -3 | cut -c1-260
(cd $wt && git checkout -q -- src)
