#!/bin/bash
# usage: tools/verify_seed2.sh <Cxx> <suffix ''|2>   (round-2 worktrees /tmp/w2_Cxx)
id="$1"; sfx="${2:-}"
wt=/tmp/${WT_PREFIX:-w2}_$id
cd $wt || exit 2
git reset -q --hard HEAD
patch=_out/patch$sfx.diff; demo=_out/demo$sfx.py
git apply "$patch" || { echo "{\"id\":\"${WT_PREFIX:-w2}-$id$sfx\",\"error\":\"patch does not apply\"}"; exit 1; }
suite=$(PYTHONPATH=$wt/src timeout 900 /venv/bin/python -m pytest -q -p no:cacheprovider 2>&1 | tail -1)
PYTHONPATH=$wt/src timeout 180 /venv/bin/python $demo >/tmp/demo_${WT_PREFIX:-w2}_$id$sfx.with 2>&1; with=$?
git reset -q --hard HEAD
PYTHONPATH=$wt/src timeout 180 /venv/bin/python $demo >/tmp/demo_${WT_PREFIX:-w2}_$id$sfx.without 2>&1; without=$?
echo "{\"id\":\"${WT_PREFIX:-w2}-$id$sfx\",\"suite\":\"$suite\",\"demo_with\":$with,\"demo_without\":$without}"
