"""Real-loop reproduction (stock selector loop, loopback sockets, no simulator).

STOR onto an existing directory: the reply is 451, but before the fix the server never
closed its side of the data connection (the stream had been detached from the session
and the file context was entered first).  A standard client waiting for EOF on the data
socket blocks for ever; the socket stays open even after Server.close().

exit 0 = data socket closed by the server (fixed), exit 1 = leak reproduced.
"""
import asyncio, sys
sys.path.insert(0, "/repo/src")
import aioftp


async def main():
    server = aioftp.Server([aioftp.User()], path_io_factory=aioftp.MemoryPathIO, wait_future_timeout=None)
    await server.start("127.0.0.1", 0)
    r, w = await asyncio.open_connection("127.0.0.1", server.server_port)

    async def cmd(line):
        if line:
            w.write(line.encode() + b"\r\n")
        return (await r.readline()).decode().strip()

    print(await cmd(None))
    print(await cmd("USER anonymous"))
    print(await cmd("MKD d"))
    rep = await cmd("EPSV")
    port = int(rep.split("|||")[1].split("|")[0])
    dr, dw = await asyncio.open_connection("127.0.0.1", port)
    print(await cmd("STOR d"))       # 150
    print(await cmd(None))           # 451
    try:
        data = await asyncio.wait_for(dr.read(), 2.0)
        print("data channel EOF from server:", data)
        rc = 0
    except asyncio.TimeoutError:
        print("LEAK: server never closed the data connection")
        rc = 1
    w.close(); dw.close()
    await server.close()
    return rc

sys.exit(asyncio.run(main()))
