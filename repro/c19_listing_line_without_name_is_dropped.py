"""Reproduction without any network: the client's own parsers and the rule of its lister.

An MLSD line that consists of facts only ('Type=file;Size=3;' or just 't') has an empty name
field.  parse_mlsx_line returns PurePosixPath('') for it, which *is* PurePosixPath('.'), and
Client.list() skips entries named '.' / '..' - so the line is dropped silently instead of being
reported as unparseable.

exit 1 = reproduced.
"""
import pathlib, sys
sys.path.insert(0, "/repo/src")
import aioftp

c = aioftp.Client()
bad = 0
for line in (b"t", b"Type=file;Size=3;", b"Type=file;Size=3; "):
    name, info = c.parse_mlsx_line(line)
    print(repr(line), "->", repr(name), info)
    if str(name) in (".", ".."):
        bad += 1  # this is the test Client.list() applies before it skips an entry
print("REPRODUCED: lines without a name are taken for '.' entries and skipped" if bad else "ok")
sys.exit(1 if bad else 0)
