"""Real-loop reproduction (stock selector loop, loopback, no simulator).

The peer makes the data connection first, then `RETR missing` is refused (550 - or 451 when a
backend call of the pre-checks fails) and the peer closes that data connection, as every client
does after a refused transfer.  The server keeps the dead connection registered for the
session.  The next transfer over the same passive listener (no PASV / EPSV in between, data
connection made after the command) is accepted with 150, picks the dead connection, fails with
ConnectionResetError / BrokenPipeError in its worker - which is not a backend error, so the
dispatcher ends the whole session: no completion reply, control connection closed.  (With
STOR instead of RETR the dead connection reads as an empty upload: 226 and an empty file.)

exit 1 = reproduced, exit 0 = the second transfer is served and the session goes on.
"""
import asyncio, sys
sys.path.insert(0, "/repo/src")
import aioftp


async def main():
    server = aioftp.Server([aioftp.User()], path_io_factory=aioftp.MemoryPathIO)
    await server.start("127.0.0.1", 0)
    c = aioftp.Client()
    await c.connect("127.0.0.1", server.server_port)
    await c.login()
    async with c.upload_stream("f.txt") as s:
        await s.write(b"0123456789" * 1000)
    await c.quit()

    r, w = await asyncio.open_connection("127.0.0.1", server.server_port)
    await r.readline()

    async def cmd(line):
        w.write(line.encode() + b"\r\n")
        return (await asyncio.wait_for(r.readline(), 5)).decode().strip()

    print(await cmd("USER anonymous"))
    rep = await cmd("EPSV")
    port = int(rep.split("|")[-2])
    dr, dw = await asyncio.open_connection("127.0.0.1", port)
    await asyncio.sleep(0.1)
    print("RETR missing.txt ->", await cmd("RETR missing.txt"))
    dw.close()
    await asyncio.sleep(0.1)
    print("RETR f.txt       ->", await cmd("RETR f.txt"))
    try:
        dr, dw = await asyncio.open_connection("127.0.0.1", port)
        data = await asyncio.wait_for(dr.read(), 5)
        dw.close()
    except (OSError, asyncio.TimeoutError) as e:
        print("data connection:", repr(e))
        data = b""
    try:
        final = (await asyncio.wait_for(r.readline(), 5)).decode().strip()
    except (ConnectionError, asyncio.TimeoutError) as e:
        final = repr(e)
    print("received", len(data), "bytes; completion reply:", repr(final))
    try:
        pwd = await cmd("PWD")
    except (ConnectionError, asyncio.TimeoutError, asyncio.IncompleteReadError) as e:
        pwd = repr(e)
    print("PWD ->", repr(pwd))
    w.close()
    await server.close()
    bad = not final.startswith("226") or not pwd.startswith("257")
    print("REPRODUCED: the session was ended after a refused transfer left a dead data connection behind" if bad else "ok")
    return 1 if bad else 0

sys.exit(asyncio.run(main()))
