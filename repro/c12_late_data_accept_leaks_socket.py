"""Real-loop reproduction (stock selector loop, loopback sockets, no simulator).

A data connection that the kernel accepted while the session is being torn down
(control connection dropped / Server.close()) is handed to the passive-listener
callback *after* the dispatcher's clean-up already looked for a data connection: the
callback stores it in the dead session and nobody ever closes it.

The client connects the data channel and drops the control connection back to back,
many times; a leak is a data socket that the server never closes.
exit 0 = never leaked, exit 1 = leak reproduced.
"""
import asyncio, socket, sys
sys.path.insert(0, "/repo/src")
import aioftp


async def trial(server, delay):
    r, w = await asyncio.open_connection("127.0.0.1", server.server_port)
    async def cmd(line):
        if line:
            w.write(line.encode() + b"\r\n")
        return (await r.readline()).decode().strip()
    await cmd(None); await cmd("USER anonymous")
    rep = await cmd("EPSV")
    port = int(rep.split("|||")[1].split("|")[0])
    s = socket.socket(); s.setblocking(False)
    loop = asyncio.get_running_loop()
    # control FIN and data SYN leave back to back (client and server share this thread,
    # so the server's selector sees both in the same poll, control first)
    w.transport.get_extra_info("socket").shutdown(socket.SHUT_WR)
    try:
        s.connect(("127.0.0.1", port))
    except BlockingIOError:
        pass
    await asyncio.sleep(0.05)
    w.close()
    try:
        data = await asyncio.wait_for(loop.sock_recv(s, 10), 0.3)
        leaked = False
    except asyncio.TimeoutError:
        leaked = True
    except OSError:
        leaked = False
    s.close()
    return leaked


async def main():
    server = aioftp.Server([aioftp.User()], path_io_factory=aioftp.MemoryPathIO, wait_future_timeout=None)
    await server.start("127.0.0.1", 0)
    leaks = 0
    n = 0
    for delay in (0,) * 10:
        n += 1
        leaks += await trial(server, delay)
    print(f"{leaks} leaked data sockets in {n} trials")
    await server.close()
    return 1 if leaks else 0

sys.exit(asyncio.run(main()))
