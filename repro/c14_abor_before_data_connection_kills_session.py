"""Real-loop reproduction (stock selector loop, loopback, no simulator).

ABOR sent after a transfer command but before the data connection is made: the transfer
task is still inside the data-connection wait, which (before the fix) wrapped the
abortable @worker instead of being wrapped by it.  The CancelledError therefore escaped
the worker, surfaced from task.result() inside the dispatcher and tore the whole session
down without any reply to ABOR.

exit 1 = reproduced (session dropped, ABOR unanswered); exit 0 = 426 + 226, session alive.
"""
import asyncio, sys
sys.path.insert(0, "/repo/src")
import aioftp


async def main():
    server = aioftp.Server([aioftp.User()], path_io_factory=aioftp.MemoryPathIO, wait_future_timeout=5)
    await server.start("127.0.0.1", 0)
    r, w = await asyncio.open_connection("127.0.0.1", server.server_port)

    async def reply():
        line = await asyncio.wait_for(r.readline(), 2)
        return line.decode().strip()

    await reply()
    w.write(b"USER anonymous\r\n"); await reply()
    w.write(b"MKD d\r\n"); await reply()
    w.write(b"EPSV\r\n"); await reply()
    w.write(b"MLSD d\r\n"); print(await reply())          # 150, data connection not made yet
    await asyncio.sleep(0.1)
    w.write(b"ABOR\r\n")
    got = []
    try:
        for _ in range(2):
            got.append(await reply())
        w.write(b"PWD\r\n"); got.append(await reply())
    except asyncio.TimeoutError:
        got.append("<timeout>")
    print("after ABOR:", got)
    ok = len(got) == 3 and got[0].startswith("426") and got[1].startswith("226") and got[2].startswith("257")
    w.close()
    await server.close()
    print("ok" if ok else "REPRODUCED: ABOR not answered / session dropped")
    return 0 if ok else 1

sys.exit(asyncio.run(main()))
