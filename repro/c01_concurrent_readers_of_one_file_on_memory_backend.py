"""Real-loop reproduction (stock selector loop, loopback, no simulator).

Two sessions download the same 20 MB file from a server on the shipped MemoryPathIO backend,
the second starting 10 ms after the first.  MemoryPathIO.open(mode="rb") handed every opener
the node's one io.BytesIO object (after seek(0)), so both transfers advanced - and the later
open rewound - one shared position: each session received some other byte string (wrong
length, blocks missing and repeated) with a normal 226 completion reply.  The filesystem
backends deliver the stored bytes to both.

exit 1 = reproduced, exit 0 = both sessions received exactly the stored bytes.
"""
import asyncio, sys
sys.path.insert(0, "/repo/src")
import aioftp


async def main():
    server = aioftp.Server([aioftp.User()], path_io_factory=aioftp.MemoryPathIO)
    await server.start("127.0.0.1", 0)
    data = bytes((i * 7 + (i >> 8)) & 0xFF for i in range(20_000_000))
    c = aioftp.Client()
    await c.connect("127.0.0.1", server.server_port)
    await c.login()
    async with c.upload_stream("big.bin") as s:
        await s.write(data)

    async def dl(delay):
        await asyncio.sleep(delay)
        k = aioftp.Client()
        await k.connect("127.0.0.1", server.server_port)
        await k.login()
        buf = bytearray()
        async with k.download_stream("big.bin") as s:
            async for b in s.iter_by_block(8192):
                buf += b
        await k.quit()
        return bytes(buf)

    a, b = await asyncio.gather(dl(0), dl(0.01))
    print("stored", len(data), "bytes; session 1 received", len(a), "- session 2 received", len(b))
    await c.quit()
    await server.close()
    bad = a != data or b != data
    print("REPRODUCED: concurrent downloads of one file disturbed each other" if bad else "ok")
    return 1 if bad else 0

sys.exit(asyncio.run(main()))
