"""Real-loop reproduction (stock selector loop, loopback, no simulator).

Server restricted to one passive data port.  A client sends PASV and closes its control
connection at once: the session is torn down while `await asyncio.start_server(...)` of
the passive listener is still suspended.  CancelledError is not an OSError, so the port
taken from the pool is never given back (and a listener bound in the last step of
create_server would never be closed).  Every later PASV is answered 421.

exit 1 = reproduced (port lost), exit 0 = the port is available again.
"""
import asyncio, socket, sys
sys.path.insert(0, "/repo/src")
import aioftp


def free_port():
    s = socket.socket(); s.bind(("127.0.0.1", 0)); p = s.getsockname()[1]; s.close(); return p


async def main():
    port = free_port()
    server = aioftp.Server([aioftp.User()], path_io_factory=aioftp.MemoryPathIO, data_ports=[port])
    await server.start("127.0.0.1", 0)
    lost = 0
    for attempt in range(5):
        r, w = await asyncio.open_connection("127.0.0.1", server.server_port)
        await r.readline()
        w.write(b"USER anonymous\r\n"); await r.readline()
        w.write(b"PASV\r\n")
        w.close()                       # PASV and FIN leave back to back
        await asyncio.sleep(0.2)
        r, w = await asyncio.open_connection("127.0.0.1", server.server_port)
        await r.readline()
        w.write(b"USER anonymous\r\n"); await r.readline()
        w.write(b"PASV\r\n")
        rep = (await r.readline()).decode().strip()
        print("attempt", attempt, "next session's PASV:", rep, "| pool size:", server.available_data_ports.qsize())
        if not rep.startswith("227"):
            lost += 1
        w.close()
        await asyncio.sleep(0.2)
    await server.close()
    print("REPRODUCED: data port lost" if lost else "ok")
    return 1 if lost else 0

sys.exit(asyncio.run(main()))
