"""Real-loop reproductions (stock selector loop, loopback, no simulator) of four findings
of the C05 model-conformance check.  Each prints what the server did.

  rest-nonascii   REST with a non-ASCII digit: '²' passes str.isdigit() but int() raises ->
                  the session is dropped without a reply; '９' is accepted (350).
  epsv-arg        EPSV <arg> is answered 522 and then the server closes the session.
  rest-survives   REST 3, STOR a, RETR f: the RETR starts at byte 3 too (the offset given for
                  the STOR is still applied to the next transfer).
  rename-into-self  (MemoryPathIO) RNFR /d, RNTO /d/new is answered 250 and the subtree vanishes;
                  RNFR /g, RNTO /f/x (through a file) is answered 451 but /g is gone.

usage: c05_command_histories.py <name>     exit 1 = reproduced, 0 = behaves as the model says
"""
import asyncio, sys
sys.path.insert(0, "/repo/src")
import aioftp


class Raw:
    async def start(self, server):
        self.r, self.w = await asyncio.open_connection("127.0.0.1", server.server_port)
        return await self.reply()

    async def reply(self):
        try:
            line = await asyncio.wait_for(self.r.readline(), 2)
        except asyncio.TimeoutError:
            return "<timeout>"
        if not line:
            return "<closed>"
        s = line.decode().rstrip()
        while s[3:4] == "-":
            nxt = (await self.r.readline()).decode().rstrip()
            if nxt.startswith(s[:3] + " "):
                break
        return s

    async def cmd(self, line):
        self.w.write(line.encode() + b"\r\n")
        return await self.reply()

    async def passive(self):
        rep = await self.cmd("EPSV")
        return int(rep.split("|||")[1].split("|")[0])


async def main(name):
    server = aioftp.Server([aioftp.User()], path_io_factory=aioftp.MemoryPathIO)
    await server.start("127.0.0.1", 0)
    c = Raw()
    await c.start(server)
    await c.cmd("USER anonymous")
    bad = False
    if name == "rest-nonascii":
        r1 = await c.cmd("REST ９")
        r2 = await c.cmd("REST ²")
        r3 = await c.cmd("PWD")
        print("REST ９ ->", r1, "| REST ² ->", r2, "| PWD ->", r3)
        bad = r1.startswith("350") or not r2.startswith("5") or not r3.startswith("257")
    elif name == "epsv-arg":
        r1 = await c.cmd("EPSV 1")
        r2 = await c.cmd("PWD")
        print("EPSV 1 ->", r1, "| PWD ->", r2)
        bad = not r2.startswith("257")
    elif name == "rest-survives":
        async def put(path, data, rest=None):
            port = await c.passive()
            dr, dw = await asyncio.open_connection("127.0.0.1", port)
            if rest is not None:
                await c.cmd(f"REST {rest}")
            await c.cmd("STOR " + path)
            dw.write(data); dw.close()
            return await c.reply()
        await put("f", b"0123456789")
        await put("a", b"xx")
        port = await c.passive()
        dr, dw = await asyncio.open_connection("127.0.0.1", port)
        await c.cmd("REST 3")
        await c.cmd("STOR a")
        dw.write(b"yy"); dw.close(); await c.reply()
        dr, dw = await asyncio.open_connection("127.0.0.1", port)   # same listener, no command in between
        await c.cmd("RETR f")
        data = await dr.read()
        await c.reply()
        print("RETR f after (REST 3, STOR a) delivered", data)
        bad = data != b"0123456789"
    elif name == "rename-into-self":
        for line in ("MKD d", "MKD d/e"):
            await c.cmd(line)
        r1 = await c.cmd("RNFR /d"); r2 = await c.cmd("RNTO /d/new")
        r3 = await c.cmd("MLST /d")
        print("RNFR /d, RNTO /d/new ->", r2, "| MLST /d ->", r3)
        bad = r2.startswith("250")
    c.w.close()
    await server.close()
    print("REPRODUCED" if bad else "ok")
    return 1 if bad else 0

sys.exit(asyncio.run(main(sys.argv[1])))
