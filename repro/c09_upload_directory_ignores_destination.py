"""Real-loop reproduction (stock selector loop, loopback, no simulator).

docs/client_tutorial.rst: `await client.upload("folder1", "folder2")` gives
folder2/folder1/*content of folder1*.  Before the fix the children of the directory were
uploaded relative to the *name* of the source (or, with write_into, to the last component of
the destination only): folder2/folder1 was created empty and the content went to
./folder1/...; upload(src, "d/e", write_into=True) put the content under ./e.

exit 1 = reproduced, exit 0 = placed as documented.
"""
import asyncio, sys, pathlib
sys.path.insert(0, "/repo/src")
import aioftp


async def main():
    server = aioftp.Server([aioftp.User()], path_io_factory=aioftp.MemoryPathIO)
    await server.start("127.0.0.1", 0)
    c = aioftp.Client(path_io_factory=aioftp.MemoryPathIO)
    pio = c.path_io
    await pio.mkdir(pathlib.Path("/folder1/sub"), parents=True)
    async with pio.open(pathlib.Path("/folder1/sub/file.txt"), mode="wb") as f:
        await f.write(b"data")
    await c.connect("127.0.0.1", server.server_port)
    await c.login()
    await c.upload("/folder1", "folder2")
    await c.upload("/folder1", "d/e", write_into=True)
    got = sorted(str(p) for p, _ in await c.list("/", recursive=True))
    print(got)
    await c.quit()
    await server.close()
    ok = "/folder2/folder1/sub/file.txt" in got and "/d/e/sub/file.txt" in got and "/folder1" not in got and "/e" not in got
    print("ok" if ok else "REPRODUCED")
    return 0 if ok else 1

sys.exit(asyncio.run(main()))
