"""Real-loop reproduction (stock selector loop, loopback, no simulator).

Server.close() cancels the dispatchers registered in Server.connections and waits for
asyncio.Server.wait_closed().  A connection that asyncio has accepted, but whose
dispatcher task has not run yet (a few loop iterations), is not in that table: it is never
cancelled, keeps being served after close(), and - with the wait_closed() semantics of
CPython >= 3.12.1 - Server.close() does not return until that client goes away.

exit 1 = reproduced (close() hangs / session still served), exit 0 = close() completes.
"""
import asyncio, socket, sys
sys.path.insert(0, "/repo/src")
import aioftp


async def trial(n_yields):
    server = aioftp.Server([aioftp.User()], path_io_factory=aioftp.MemoryPathIO)
    await server.start("127.0.0.1", 0)
    s = socket.socket()
    s.connect(("127.0.0.1", server.server_port))   # handshake completed by the kernel
    s.setblocking(False)
    for _ in range(n_yields):
        await asyncio.sleep(0)                      # let the loop accept / start tasks, step by step
    try:
        await asyncio.wait_for(server.close(), 1.0)
        hung = False
    except asyncio.TimeoutError:
        hung = True
    served = False
    try:
        data = await asyncio.wait_for(asyncio.get_running_loop().sock_recv(s, 100), 0.3)
        served = data.startswith(b"220")
    except (asyncio.TimeoutError, OSError):
        pass
    s.close()
    await asyncio.sleep(0.1)
    return hung, served


async def main():
    bad = 0
    for n in range(0, 8):
        hung, served = await trial(n)
        print(f"close() after {n} loop iterations: hangs={hung} session greeted after close={served}")
        bad += hung
    print("REPRODUCED" if bad else "ok")
    return 1 if bad else 0

sys.exit(asyncio.run(main()))
