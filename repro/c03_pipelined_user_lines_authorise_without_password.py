"""Real-loop reproduction (stock selector loop, loopback, no simulator).

The user manager is aioftp's documented extension point and its methods are coroutines.
With one that really suspends (a stand-in for a database lookup: MemoryUserManager plus
`await asyncio.sleep(...)`), two USER lines sent in one segment are handled concurrently:

    USER bob        (password-protected; lookup takes 50 ms)
    USER anonymous  (no password;        lookup takes 10 ms)

The anonymous login completes first and marks the session logged in; the handler of
"USER bob" completes afterwards, answers 331 and installs bob as the session's user - the
"logged in" mark stays.  The session is then served as bob without bob's password.

exit 1 = reproduced, exit 0 = PWD is refused (or the session is not bob's).
"""
import asyncio, sys
sys.path.insert(0, "/repo/src")
import aioftp


class SlowUserManager(aioftp.server.MemoryUserManager):
    async def get_user(self, login):
        await asyncio.sleep(0.05 if login == "bob" else 0.01)
        return await super().get_user(login)


async def main():
    users = [aioftp.User(), aioftp.User("bob", "bobs-password", home_path="/bobs-home")]
    server = aioftp.Server(SlowUserManager(users), path_io_factory=aioftp.MemoryPathIO)
    await server.start("127.0.0.1", 0)
    r, w = await asyncio.open_connection("127.0.0.1", server.server_port)
    print((await r.readline()).decode().strip())
    w.write(b"USER bob\r\nUSER anonymous\r\n")
    print("reply 1:", (await r.readline()).decode().strip())
    print("reply 2:", (await r.readline()).decode().strip())
    w.write(b"PWD\r\n")
    rep = (await r.readline()).decode().strip()
    print("PWD:", rep)
    conn = next(iter(server.connections.values()))
    who = conn.user.login if conn.future.user.done() else None
    print("session user:", who, "| logged in:", conn.future.logged.done())
    bad = rep.startswith("257") and who == "bob"
    w.close()
    await server.close()
    print("REPRODUCED: served as bob without bob's password" if bad else "ok")
    return 1 if bad else 0

sys.exit(asyncio.run(main()))
