"""Real-loop reproduction (stock selector loop, loopback, no simulator).

The client's unix LIST parser takes the name as `s[12:].strip()` after the date column, so a
name that begins with blanks comes back without them when the listing is done with LIST
(the fallback for servers without MLSD, or raw_command="LIST").  MLSD is not affected.

exit 1 = reproduced, exit 0 = the name survives.
"""
import asyncio, sys
sys.path.insert(0, "/repo/src")
import aioftp


async def main():
    server = aioftp.Server([aioftp.User()], path_io_factory=aioftp.MemoryPathIO)
    await server.start("127.0.0.1", 0)
    c = aioftp.Client(path_io_factory=aioftp.MemoryPathIO)
    await c.connect("127.0.0.1", server.server_port)
    await c.login()
    await c.make_directory(" lead")
    mlsd = [str(p) for p, _ in await c.list(raw_command="MLSD")]
    lst = [str(p) for p, _ in await c.list(raw_command="LIST")]
    print("MLSD:", mlsd, "LIST:", lst)
    await c.quit()
    await server.close()
    bad = lst != [" lead"]
    print("REPRODUCED" if bad else "ok")
    return 1 if bad else 0

sys.exit(asyncio.run(main()))
