"""Real-loop reproduction (stock selector loop, loopback, no simulator).

Server restricted to two passive data ports.  A client sends "PASV\\r\\nEPSV\\r\\n" in one
segment.  The dispatcher starts a handler task per command line as soon as it is read, so
the second handler runs while the first is still suspended in `await
asyncio.start_server(...)`: both see `passive_server` unset, both take a port from the pool
and open a listener, and the second assignment to `connection.passive_server` replaces the
first.  The first listener is never closed (not at session end, not by Server.close()) and
its port never returns to the pool.

exit 1 = reproduced, exit 0 = one listener per session and the pool is whole again.
"""
import asyncio, socket, sys
sys.path.insert(0, "/repo/src")
import aioftp


def free_port():
    s = socket.socket(); s.bind(("127.0.0.1", 0)); p = s.getsockname()[1]; s.close(); return p


def bound(port):
    s = socket.socket()
    try:
        s.bind(("127.0.0.1", port))
        return False
    except OSError:
        return True
    finally:
        s.close()


async def main():
    ports = [free_port(), free_port()]
    server = aioftp.Server([aioftp.User()], path_io_factory=aioftp.MemoryPathIO, data_ports=ports)
    await server.start("127.0.0.1", 0)
    r, w = await asyncio.open_connection("127.0.0.1", server.server_port)
    await r.readline()
    w.write(b"USER anonymous\r\n"); await r.readline()
    w.write(b"PASV\r\nEPSV\r\n")
    print("reply 1:", (await r.readline()).decode().strip())
    print("reply 2:", (await r.readline()).decode().strip())
    held = [p for p in ports if bound(p)]
    print("listeners held by the one session:", len(held))
    w.write(b"QUIT\r\n"); await r.readline(); w.close()
    await asyncio.sleep(0.3)
    pool = sorted(p for _, p in server.available_data_ports._queue)
    still = [p for p in ports if bound(p)]
    print("after the session ended: pool", pool, "configured", sorted(ports), "| ports still bound:", still)
    await server.close()
    await asyncio.sleep(0.1)
    after_close = [p for p in ports if bound(p)]
    print("after Server.close(): ports still bound:", after_close)
    bad = len(held) > 1 or pool != sorted(ports) or still or after_close
    print("REPRODUCED: pipelined PASV/EPSV leaks a listener and its port" if bad else "ok")
    return 1 if bad else 0

sys.exit(asyncio.run(main()))
