"""Real-loop reproduction (stock selector loop, loopback, no simulator).

ABOR sent right behind a transfer command is handled while the transfer command's
handler is still doing its pre-checks (the dispatcher starts every command in its own
task and immediately reads the next line): there is no worker to cancel yet, so ABOR is
answered "226 nothing to abort" and the transfer then starts and runs to completion.
Needs a backend whose calls suspend (AsyncPathIO, or any third-party backend); shown
here with AsyncPathIO on a temporary directory.

exit 1 = reproduced (transfer not stopped), exit 0 = ABOR stopped the transfer.
"""
import asyncio, sys, tempfile, pathlib
sys.path.insert(0, "/repo/src")
import aioftp


async def main():
    with tempfile.TemporaryDirectory() as d:
        (pathlib.Path(d) / "f.bin").write_bytes(b"x" * 100000)
        server = aioftp.Server([aioftp.User(base_path=d)], path_io_factory=aioftp.AsyncPathIO)
        await server.start("127.0.0.1", 0)
        r, w = await asyncio.open_connection("127.0.0.1", server.server_port)

        async def reply():
            return (await r.readline()).decode().strip()

        await reply()
        w.write(b"USER anonymous\r\n"); await reply()
        w.write(b"EPSV\r\n")
        port = int((await reply()).split("|||")[1].split("|")[0])
        dr, dw = await asyncio.open_connection("127.0.0.1", port)
        w.write(b"RETR f.bin\r\nABOR\r\n")
        got = []
        try:
            while True:
                got.append(await asyncio.wait_for(reply(), 1.0))
        except asyncio.TimeoutError:
            pass
        data = await asyncio.wait_for(dr.read(), 2)
        print("replies:", got, "bytes received:", len(data))
        w.close(); dw.close()
        await server.close()
        overtaken = got and got[0].startswith("226") and len(data) == 100000
        print("REPRODUCED: ABOR answered 'nothing to abort', transfer completed" if overtaken else "not reproduced")
        return 1 if overtaken else 0

sys.exit(asyncio.run(main()))
