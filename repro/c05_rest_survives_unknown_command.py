"""Real-loop reproduction (stock selector loop, loopback, no simulator).

`REST 5`, then a verb the server does not implement (FEAT -> 502), then RETR: the dispatcher
clears the restart offset when it starts the handler of a known non-transfer command, but not
on the 502 branch - the download starts at byte 5 although the transfer does not immediately
follow the REST.  (With PWD instead of FEAT the whole file is delivered.)

exit 1 = reproduced, exit 0 = the whole file is delivered.
"""
import asyncio, sys
sys.path.insert(0, "/repo/src")
import aioftp


async def fetch(port, between):
    r, w = await asyncio.open_connection("127.0.0.1", port)
    await r.readline()
    async def cmd(line):
        w.write(line.encode() + b"\r\n")
        return (await r.readline()).decode().strip()
    await cmd("USER anonymous")
    rep = await cmd("EPSV")
    dport = int(rep.split("|")[-2])
    await cmd("REST 5")
    print(between, "->", await cmd(between))
    dr, dw = await asyncio.open_connection("127.0.0.1", dport)
    await cmd("RETR f.txt")
    data = await dr.read()
    dw.close()
    await r.readline()
    w.close()
    return data


async def main():
    server = aioftp.Server([aioftp.User()], path_io_factory=aioftp.MemoryPathIO)
    await server.start("127.0.0.1", 0)
    c = aioftp.Client()
    await c.connect("127.0.0.1", server.server_port)
    await c.login()
    async with c.upload_stream("f.txt") as s:
        await s.write(b"0123456789")
    await c.quit()
    a = await fetch(server.server_port, "PWD")
    b = await fetch(server.server_port, "FEAT")
    print("REST 5, PWD,  RETR ->", a)
    print("REST 5, FEAT, RETR ->", b)
    await server.close()
    bad = b != b"0123456789"
    print("REPRODUCED: the restart offset survived an unknown command" if bad else "ok")
    return 1 if bad else 0

sys.exit(asyncio.run(main()))
