"""Real-loop reproduction (stock selector loop, loopback, no simulator).

A peer pipelines many commands and QUIT and reads nothing.  The reply writer blocks on the full
socket with the other replies queued behind it; QUIT is handled and the dispatcher waits in
`await response_queue.join()`.  Then the peer resets the connection: the blocked write fails,
the writer task ends (marking only its current reply as done) and nobody will ever drain the
queue - `join()` never returns.  The session stays in `Server.connections`, its slot of
`maximum_connections` is never released and its dispatcher task lives until `Server.close()`.

exit 1 = reproduced, exit 0 = the session is gone and a new client is greeted with 220.
"""
import asyncio, socket, struct, sys
sys.path.insert(0, "/repo/src")
import aioftp


async def main():
    server = aioftp.Server([aioftp.User()], path_io_factory=aioftp.MemoryPathIO, maximum_connections=1)
    await server.start("127.0.0.1", 0)
    s = socket.socket()
    s.setsockopt(socket.SOL_SOCKET, socket.SO_RCVBUF, 4096)
    s.setblocking(False)
    loop = asyncio.get_running_loop()
    await loop.sock_connect(s, ("127.0.0.1", server.server_port))
    verb = b"X" * 3000  # answered "502 'xxx...' not implemented": a 3 KB reply per line
    await loop.sock_sendall(s, b"USER anonymous\r\n" + (verb + b"\r\n") * 6000 + b"QUIT\r\n")
    await asyncio.sleep(2.0)  # the peer reads nothing: the server's writer is blocked by now
    s.setsockopt(socket.SOL_SOCKET, socket.SO_LINGER, struct.pack("ii", 1, 0))
    s.close()  # RST
    await asyncio.sleep(2.0)
    left = len(server.connections)
    print("sessions still registered after the peer is gone:", left)
    r, w = await asyncio.open_connection("127.0.0.1", server.server_port)
    greeting = (await r.readline()).decode().strip()
    print("a new client is greeted with:", greeting)
    w.close()
    bad = left != 0 or not greeting.startswith("220")
    try:
        await asyncio.wait_for(server.close(), 5)
    except asyncio.TimeoutError:
        print("Server.close() did not complete")
    print("REPRODUCED: the ended session is parked in response_queue.join() for ever" if bad else "ok")
    return 1 if bad else 0

sys.exit(asyncio.run(main()))
