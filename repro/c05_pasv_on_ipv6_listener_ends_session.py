"""Real-loop reproduction: PASV on a server listening on ::1 is answered
'503 this server started in ipv6 mode' and then the server closes the session although the
reply does not announce it.  exit 1 = reproduced, 0 = session continues."""
import asyncio, sys
sys.path.insert(0, "/repo/src")
import aioftp


async def main():
    server = aioftp.Server([aioftp.User()], path_io_factory=aioftp.MemoryPathIO)
    await server.start("::1", 0)
    r, w = await asyncio.open_connection("::1", server.server_port)

    async def cmd(line):
        if line:
            w.write(line.encode() + b"\r\n")
        try:
            b = await asyncio.wait_for(r.readline(), 2)
        except asyncio.TimeoutError:
            return "<timeout>"
        return b.decode().strip() or "<closed>"

    await cmd(None); await cmd("USER anonymous")
    r1 = await cmd("PASV"); r2 = await cmd("PWD")
    print("PASV ->", r1, "| PWD ->", r2)
    w.close()
    await server.close()
    bad = not r2.startswith("257")
    print("REPRODUCED" if bad else "ok")
    return 1 if bad else 0

sys.exit(asyncio.run(main()))
