"""Real-loop reproduction (stock selector loop, loopback, no simulator).

`REST <5000 digits>`: the argument passes `isascii() and isdigit()`, then `int()` raises
ValueError ("Exceeds the limit (4300 digits) for integer string conversion"), the handler's
exception reaches the dispatcher and the session is closed without any reply - instead of a
5xx for a malformed argument and the session going on.

exit 1 = reproduced, exit 0 = REST answered 5xx (or 350) and PWD still served.
"""
import asyncio, sys
sys.path.insert(0, "/repo/src")
import aioftp
async def main():
    server = aioftp.Server([aioftp.User()], path_io_factory=aioftp.MemoryPathIO)
    await server.start("127.0.0.1", 0)
    r, w = await asyncio.open_connection("127.0.0.1", server.server_port)
    await r.readline()
    w.write(b"USER anonymous\r\n"); print((await r.readline()).decode().strip())
    w.write(b"REST " + b"9" * 5000 + b"\r\n")
    try:
        line = await asyncio.wait_for(r.readline(), 3)
        print("reply to REST:", line.decode().strip()[:60] or "<EOF: session closed without a reply>")
    except asyncio.TimeoutError:
        print("no reply"); line=b""
    w.write(b"PWD\r\n")
    try:
        l2 = await asyncio.wait_for(r.readline(), 3); print("PWD:", l2.decode().strip() or "<EOF>")
    except Exception as e: print("PWD failed", e); l2=b""
    await server.close()
    return 0 if line.startswith(b"5") and l2.startswith(b"257") else 1
sys.exit(asyncio.run(main()))
