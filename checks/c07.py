"""C07 - listings and stats report the backend's truth (MLSD, MLST, LIST fallback).

Disk image with controlled truth: a directory of 0..12 entries (files with sizes 0..2^40
through a stat override in the spy backend, directories), modification times drawn over
1971..2037 at minute granularity with a bias to the structure of the date logic (now,
now - half a year, New Year, Feb 28 / 29 / Mar 1 of leap and non-leap years, future times).
The simulated wall clock provides `now` (seeded epoch, optional jump between the listings) and
the process time zone is one of UTC / Europe/Berlin (DST) / Asia/Kolkata (+5:30).  The real
client lists with MLSD, with LIST, stats with MLST, and does the same against a server
variant whose MLSD / MLST are not implemented (forcing the LIST fallback inside list() and
stat()).  Pure sub-check (declared): parse_ls_date(build_list_mtime(m, now), now) over a grid.
"""

from __future__ import annotations

import asyncio
import calendar
import datetime
import gc
import io
import os
import random
import time as _time

from checks import common
from simftp import fs as simfs, scenario
from simftp.world import aioftp

PROP = "C07"
H = 15778476  # HALF_OF_YEAR_IN_SECONDS
DAY = 86400
ZONES = ["UTC", "Europe/Berlin", "Asia/Kolkata", "America/New_York"]


def set_tz(tz):
    os.environ["TZ"] = tz
    _time.tzset()


def pick_now(rnd):
    y = rnd.randint(1975, 2036)
    k = rnd.random()
    if k < 0.25:  # around New Year
        base = calendar.timegm((y, 1, 1, 0, 0, 0)) + rnd.randint(-3 * DAY, 3 * DAY)
    elif k < 0.45:  # around the end of February
        base = calendar.timegm((y, 3, 1, 0, 0, 0)) + rnd.randint(-3 * DAY, 2 * DAY)
    elif k < 0.6:  # mid year
        base = calendar.timegm((y, 7, 1, 0, 0, 0)) + rnd.randint(-5 * DAY, 5 * DAY)
    else:
        base = calendar.timegm((y, rnd.randint(1, 12), rnd.randint(1, 28), rnd.randint(0, 23), rnd.randint(0, 59), 0))
    return base + rnd.randint(0, 59)


def pick_mtime(rnd, now):
    k = rnd.random()
    if k < 0.2:
        m = now - rnd.randint(0, 3 * DAY)
    elif k < 0.4:
        m = now - H + rnd.randint(-3 * DAY, 3 * DAY)
    elif k < 0.5:
        m = now + rnd.randint(1, 400 * DAY)  # future
    elif k < 0.65:
        y = _time.gmtime(now).tm_year - rnd.randint(0, 5)
        m = calendar.timegm((y, 3, 1, 0, 0, 0)) + rnd.randint(-3 * DAY, DAY)  # Feb 27 .. Mar 1
    elif k < 0.75:
        y = _time.gmtime(now).tm_year - rnd.randint(0, 2)
        m = calendar.timegm((y, 1, 1, 0, 0, 0)) + rnd.randint(-2 * DAY, 2 * DAY)
    elif k < 0.9:
        m = now - rnd.randint(0, 2 * H)
    else:
        m = rnd.randint(calendar.timegm((1971, 1, 1, 0, 0, 0)), calendar.timegm((2037, 12, 31, 0, 0, 0)))
    m = max(86400 * 400, m)
    return (m // 60) * 60  # minute granularity


def gen_case(seed):
    rnd = random.Random(seed * 3571 + 8)
    now = pick_now(rnd)
    entries = []
    names = set()
    for i in range(rnd.choice([0, 1, 2, 3, 5, 8, 12])):
        nm = rnd.choice(["a", "b.txt", "data", "x y", "n-1", "z_2", "Makefile", "r", "q.tar.gz", "some dir", "007", "e"]) + (str(i) if rnd.random() < 0.5 else "")
        if nm in names:
            nm += f"_{i}"
        names.add(nm)
        kind = "dir" if rnd.random() < 0.35 else "file"
        size = 0 if kind == "dir" else rnd.choice([0, 1, 7, 4096, 65535, 2**31 - 1, 2**31, 2**32 + 5, 2**40, rnd.randint(0, 10**6)])
        entries.append({"name": nm, "type": kind, "size": size, "mtime": pick_mtime(rnd, now)})
    jump = rnd.choice([0, 0, 0, 30, 3600, DAY // 2])
    if jump and entries and rnd.random() < 0.5:
        # an mtime that is in the future at the first listing and in the past after the clock moved on
        entries[0]["mtime"] = ((now + rnd.randint(60, max(61, jump))) // 60) * 60
    case = {"seed": seed, "tz": rnd.choice(ZONES), "now": now, "jump": jump, "entries": entries, "no_mlsx": rnd.random() < 0.4}
    # the listed directory: entered first and listed as the working directory, or named in the
    # listing command (relative or absolute); names that look like `ls` switches included
    case["dname"] = rnd.choice(["dir", "dir", "dir", "-a", "-la", "-l x", "d e", "-R"])
    case["how"] = rnd.choice(["cwd", "cwd", "relative", "absolute"])
    # a raw session asks for the listing, then changes its working directory, and only then
    # makes the data connection: the entries are those of the directory the command named
    case["late"] = rnd.choice([None, None, ["CDUP"], ["CWD /"], ["CWD /elsewhere"]])
    if case["late"] is not None and rnd.random() < 0.5:
        # ... and meanwhile the clock moves on and another entry appears in the directory: it is
        # listed with the precision its age has when the listing is produced
        case["late_fresh"] = rnd.choice([61, 600, 3700])
    if case["late"] is None and rnd.random() < 0.25:
        # a backend failure at the j-th call of the raw listing: the listing fails (451), or it
        # completes - then it is complete
        case["late"] = []
        case["late_fault"] = rnd.randint(1, 2 * len(entries) + 4)
    return case


class NoMlsxServer(aioftp.Server):
    def __init__(self, *a, **kw):
        super().__init__(*a, **kw)
        del self.commands_mapping["mlsd"]
        del self.commands_mapping["mlst"]


def expected_list_modify(mtime, now):
    lt = _time.localtime(mtime)
    if now - H < mtime <= now:
        return _time.strftime("%Y%m%d%H%M00", lt)
    return _time.strftime("%Y%m%d000000", lt)


def ambiguous(mtime, now_lo, now_hi):
    """inside the one-day window around the half-year boundary (for any 'now' used by either side)"""
    for now in (now_lo, now_hi):
        if abs((now - mtime) - H) <= DAY + 120:
            return True
    return False


def run_case(case):
    set_tz(case["tz"])
    try:
        return _run_case(case)
    finally:
        set_tz("UTC")


def _run_case(case):
    rng = random.Random(case["seed"] * 7919 + 89)
    net = scenario.random_net(rng, allow_small_pipe=True)
    net["latency"] = [0.001, 0.002]
    sc = {"seed": case["seed"], "net": net, "epoch": float(case["now"])}
    viol = []
    info = {"entries_checked": 0, "skipped_ambiguous": 0}
    entries = case["entries"]
    world = scenario.setup_world(sc)
    with world:
        scenario.apply_net(world.net, net)
        base = simfs.make_spy(aioftp.MemoryPathIO, world.fsctl)

        class SizedMemory(base):
            @aioftp.pathio.universal_exception
            async def stat(self, path):
                st = await super().stat(path)
                node = self.get_node(path)
                fake = getattr(node, "fake_size", None)
                if fake is not None:
                    st = st._replace(st_size=fake)
                return st

        cls = NoMlsxServer if case.get("no_mlsx") else aioftp.Server
        server = cls([aioftp.User()], path_io_factory=SizedMemory, block_size=64)
        world.server = server
        world.backend_cls = SizedMemory
        state = world.fs_state
        root = state[0]
        dname = case.get("dname", "dir")
        how = case.get("how", "cwd")
        d = aioftp.pathio.Node("dir", dname, content=[])
        d.mtime = d.ctime = case["now"] - 1000
        root.content.append(d)
        el = aioftp.pathio.Node("dir", "elsewhere", content=[aioftp.pathio.Node("file", "not-here", content=io.BytesIO(b"x"))])
        el.mtime = el.ctime = el.content[0].mtime = el.content[0].ctime = case["now"] - 1000
        root.content.append(el)
        for e in entries:
            if e["type"] == "dir":
                n = aioftp.pathio.Node("dir", e["name"], content=[])
            else:
                n = aioftp.pathio.Node("file", e["name"], content=io.BytesIO(b""))
                n.fake_size = e["size"]
            n.mtime = e["mtime"]
            n.ctime = e["mtime"]
            d.content.append(n)
        client = aioftp.Client(path_io_factory=aioftp.MemoryPathIO)
        truth = {e["name"]: e for e in entries}

        def check_listing(kind, got, now_lo, now_hi):
            names = sorted(str(p.name) for p, inf in got)
            if names != sorted(truth):
                viol.append({"clause": "entries-differ", "subject": kind, "detail": f"{kind} of a directory with {sorted(truth)} returned {names} (tz {case['tz']})"})
                return
            for p, inf in got:
                e = truth[p.name]
                info["entries_checked"] += 1
                if inf.get("type") != e["type"]:
                    viol.append({"clause": "type-differs", "subject": kind, "detail": f"{kind}: {p.name!r} is a {e['type']}, reported {inf.get('type')!r}"})
                if e["type"] == "file" and inf.get("size") != str(e["size"]):
                    viol.append({"clause": "size-differs", "subject": kind, "detail": f"{kind}: {p.name!r} has {e['size']} bytes, reported {inf.get('size')!r}"})
                if kind.startswith("MLS"):
                    want = _time.strftime("%Y%m%d%H%M%S", _time.gmtime(e["mtime"]))
                    if inf.get("modify") != want:
                        viol.append({"clause": "modify-differs", "subject": kind, "detail": f"{kind}: {p.name!r} mtime {e['mtime']} = {want} UTC, reported {inf.get('modify')!r} (tz {case['tz']})"})
                else:
                    if ambiguous(e["mtime"], now_lo, now_hi):
                        info["skipped_ambiguous"] += 1
                        continue
                    wants = {expected_list_modify(e["mtime"], now_lo), expected_list_modify(e["mtime"], now_hi)}
                    if inf.get("modify") not in wants:
                        viol.append({"clause": "modify-differs", "subject": kind, "detail": f"{kind}: {p.name!r} mtime {e['mtime']} (local {_time.strftime('%Y-%m-%d %H:%M', _time.localtime(e['mtime']))}), listed at now={now_lo} (local {_time.strftime('%Y-%m-%d %H:%M', _time.localtime(now_lo))}, tz {case['tz']}): reported {inf.get('modify')!r}, expected one of {sorted(wants)}"})

        async def main():
            await server.start("127.0.0.1", 2121)
            await client.connect("127.0.0.1", 2121)
            await client.login()
            if how == "cwd":
                await client.change_directory(dname)
            target = {"cwd": "", "relative": dname, "absolute": "/" + dname}[how]
            kinds = [("LIST", "LIST")] if case.get("no_mlsx") else [("MLSD", "MLSD"), ("LIST", "LIST")]
            for kind, raw in kinds + [("default", None)]:
                t0 = world.clock.time()
                got = await client.list(target, raw_command=raw)
                t1 = world.clock.time()
                label = kind if kind != "default" else ("LIST-fallback" if case.get("no_mlsx") else "MLSD")
                check_listing(label, got, t0, t1)
                if case.get("jump"):
                    world.clock.jump(case["jump"])
            for e in entries[:4]:
                t0 = world.clock.time()
                st = await client.stat((target + "/" if target else "") + e["name"])
                t1 = world.clock.time()
                label = "stat-LIST-fallback" if case.get("no_mlsx") else "MLST"
                import pathlib

                check_one = [(pathlib.PurePosixPath(e["name"]), st)]
                saved = dict(truth)
                truth.clear()
                truth[e["name"]] = e
                check_listing(label if label == "MLST" else "LIST-stat", check_one, t0, t1)
                truth.clear()
                truth.update(saved)
            await client.quit()
            if case.get("late") is not None:
                from simftp import conform
                from simftp.peers import PeerGone, RawPeer, ReplyTimeout

                peer = RawPeer(world, "raw", reply_timeout=200.0)
                try:
                    await peer.connect()
                    await peer.login()
                    verbs = ["LIST"] if case.get("no_mlsx") else ["MLSD", "LIST"]
                    for verb in verbs:
                        await peer.cmd("CWD /" + dname)
                        await peer.passive("EPSV")
                        if case.get("late_fault"):
                            import errno as _errno

                            world.fsctl.fail_at[world.fsctl.n + case["late_fault"]] = _errno.EIO
                        code, _ = await peer.cmd(verb)
                        if code[0] != "1":
                            world.fsctl.fail_at.clear()
                            continue
                        between = [(await peer.cmd(line))[0] for line in case["late"]]
                        fresh = None
                        if case.get("late_fresh") and "fresh-entry" not in truth:
                            world.clock.jump(case["late_fresh"])
                            fresh = {"name": "fresh-entry", "type": "file", "size": 3, "mtime": int(world.clock.time()) - 5}
                            n = aioftp.pathio.Node("file", fresh["name"], content=io.BytesIO(b""))
                            n.fake_size = fresh["size"]
                            n.mtime = n.ctime = fresh["mtime"]
                            d.content.append(n)
                            truth[fresh["name"]] = fresh
                        t0 = world.clock.time()
                        await peer.data_connect()
                        data, _how = await peer.recv_all(timeout=100.0)
                        t1 = world.clock.time()
                        peer.data_close()
                        final = (await peer.reply(100.0))[0]
                        faulted = bool(world.fsctl.faults_fired) if case.get("late_fault") else False
                        world.fsctl.fail_at.clear()
                        names = sorted(conform.listing_names(verb, data))
                        info["late_listings"] = info.get("late_listings", 0) + 1
                        if final[0] == "2" and names != sorted(truth):
                            how_txt = f"a backend failure at call {case['late_fault']} of the listing" if case.get("late_fault") else f"then {case['late']} (answered {between})"
                            viol.append({"clause": "entries-differ", "subject": f"{verb}:" + ("backend-failure-during-listing" if case.get("late_fault") else "commands-before-data-connection"), "detail": f"CWD /{dname}, {verb} (150), {how_txt}, then the data connection: completed with {final} and listed {names}, the directory holds {sorted(truth)}"})
                        if verb == "LIST" and final[0] == "2" and fresh is not None:
                            parser = aioftp.Client(path_io_factory=aioftp.MemoryPathIO)
                            for raw_line in data.split(b"\r\n"):
                                if raw_line.endswith(b" fresh-entry"):
                                    _p, inf = parser.parse_list_line_unix(raw_line)
                                    wants = {expected_list_modify(fresh["mtime"], t0), expected_list_modify(fresh["mtime"], t1)}
                                    if inf.get("modify") not in wants and not ambiguous(fresh["mtime"], t0, t1):
                                        viol.append({"clause": "modify-differs", "subject": "LIST:entry-created-after-the-command", "detail": f"LIST (150), the clock moves on {case['late_fresh']} s, 'fresh-entry' is created (mtime 5 s ago), then the data connection: listed as {raw_line.decode('utf-8', 'replace')!r} -> modify {inf.get('modify')!r}, expected one of {sorted(wants)}"})
                        if faulted:
                            info["late_faulted"] = info.get("late_faulted", 0) + 1
                    await peer.cmd("QUIT")
                except (PeerGone, ReplyTimeout, OSError) as e:
                    viol.append({"clause": "listing-failed", "subject": "commands-before-data-connection", "detail": f"raw session: {type(e).__name__}"})
                peer.close()
            await asyncio.sleep(1)
            await common.close_server(server)

        world.run(main())
        gc.collect()
        if world.outcome not in ("ok", "budget", "deadlock"):
            err = world.error
            if isinstance(err, (ValueError, KeyError, aioftp.StatusCodeError)):
                viol.append({"clause": "listing-failed", "subject": type(err).__name__, "detail": f"{err!r}"[:300]})
            else:
                raise common.HarnessError(f"scenario failed: {world.outcome}: {world.error!r}")
        seen = set()
        out = []
        for v in viol:
            key = (v["clause"], v["subject"])
            if key not in seen:
                seen.add(key)
                out.append(v)
        res = {
            "digest": world.digest(repr(sorted((e["name"], e["mtime"], e["size"]) for e in entries)) + case["tz"]),
            "nontrivial": info["entries_checked"] > 0,
            "vtime": world.loop.time() - 1000.0,
            "events": world.net.seq,
            "steps": world.loop.steps,
            "outcome": world.outcome,
            "counters": {"entries_checked": info["entries_checked"], "entries_in_ambiguity_window_(modify_not_compared)": info["skipped_ambiguous"], "faults.clock_jump_between_listings": int(bool(case.get("jump"))), "probe.listings_with_commands_before_the_data_connection": info.get("late_listings", 0), "faults.backend_failure_during_a_raw_listing": info.get("late_faulted", 0)},
            "groups": {"tz": {case["tz"]: 1}, "server": {"no-mlsx" if case.get("no_mlsx") else "mlsx": 1}},
            "violations": out,
        }
        if case.get("want_sample"):
            res["sample"] = {"case": case}
    return res


def pure_subcheck(seed, n):
    """parse_ls_date(build_list_mtime(m, now), now) at function level"""
    rnd = random.Random(seed)
    bad = []
    cnt = 0
    for tz in ZONES:
        set_tz(tz)
        for _ in range(n // len(ZONES)):
            now = pick_now(rnd)
            m = pick_mtime(rnd, now)
            cnt += 1
            s = aioftp.Server.build_list_mtime(m, now)
            try:
                got = aioftp.Client.parse_ls_date(s, now=datetime.datetime.fromtimestamp(now))
            except ValueError as e:
                bad.append((tz, m, now, s, repr(e)))
                continue
            if abs((now - m) - H) <= DAY + 120:
                continue
            if got != expected_list_modify(m, now):
                bad.append((tz, m, now, s, got, expected_list_modify(m, now)))
            if len(bad) > 3:
                break
    set_tz("UTC")
    return cnt, bad


def confirm(case, violation):
    if case.get("mode") == "pure":
        return True
    r = run_case(case)
    return any(v["clause"] == violation["clause"] and v["subject"] == violation["subject"] for v in r["violations"])


def minimise(case, violation):
    import copy

    if case.get("mode") == "pure":
        return case, violation

    def bad(c):
        try:
            r = run_case(c)
        except Exception:
            return False
        return any(v["clause"] == violation["clause"] and v["subject"] == violation["subject"] for v in r["violations"])

    cur = copy.deepcopy(case)
    cur.pop("want_sample", None)
    i = len(cur["entries"]) - 1
    while i >= 0 and len(cur["entries"]) > 1:
        trial = copy.deepcopy(cur)
        del trial["entries"][i]
        if bad(trial):
            cur = trial
        i -= 1
    for key, val in (("jump", 0), ("tz", "UTC")):
        if cur.get(key) != val:
            trial = copy.deepcopy(cur)
            trial[key] = val
            if bad(trial):
                cur = trial
    return cur, violation


def selftest_cases(n):
    return [gen_case(140_000 + i) for i in range(n)]


def main(argv=None):
    a = common.tier_and_seed(argv)
    if a.replay:
        import json

        doc = json.load(open(a.replay))
        if doc["case"].get("mode") == "pure":
            n, bad = pure_subcheck(doc["case"]["seed"], 4000)
            print("pure sub-check:", bad[:2])
            if bad:
                print(f"VIOLATION property={PROP} replay={a.replay}")
                return 1
            return 0
        r = run_case(doc["case"])
        hit = [v for v in r["violations"] if v["clause"] == doc["clause"]]
        if hit:
            print(f"reproduced: {hit[0]}")
            print(f"VIOLATION property={PROP} replay={a.replay}")
            return 1
        print("not reproduced")
        return 0
    quick = a.tier == "quick"
    ev = common.Evidence(PROP, a.tier, a.seed, "exploration", "seeded disk images (0..12 entries, files 0..2^40 bytes, directories, mtimes over 1971..2037 biased to now / now - half year / New Year / Feb 28-29 / future) x seeded wall clock 'now' (biased to New Year, end of February, mid year) with optional clock jump between listings x process time zone in {UTC, Europe/Berlin, Asia/Kolkata, America/New_York} x server with or without MLSD/MLST x the listed directory entered first or named in the command (relative / absolute; names like '-a', '-l x' included), and by a raw session that changes its working directory between the 1xx mark and the data connection; real client lists (MLSD, LIST, default) and stats; names / types / sizes always compared, modify compared to the format's precision except inside the one-day half-year ambiguity window; non-trivial = at least one entry compared; distinct = distinct run digests.  pure_subcheck.ls_date_roundtrips counts function-level parse(format(mtime, now), now) evaluations")
    rep = common.Reporter(PROP, ev)
    deadline = _time.time() + (a.budget or (60 if quick else 1200))
    n = 3000 if quick else 400000
    cnt, bad = pure_subcheck(a.seed + 5, 8000 if quick else 400000)
    ev.count("pure_subcheck.ls_date_roundtrips", cnt)
    if bad:
        rep.add({"mode": "pure", "seed": a.seed + 5}, {"clause": "ls-date-roundtrip", "subject": "function-level", "detail": f"parse_ls_date(build_list_mtime(mtime, now), now) wrong for (tz, mtime, now, text, got, expected) = {bad[:3]}"})
    with common.Pool() as pool:
        cases = common.with_samples((gen_case(a.seed * 1_000_000 + i) for i in range(n)), 2)
        for case, res in pool.map(run_case, cases, deadline=deadline, chunksize=8):
            ev.add_run(res)
            for v in res["violations"]:
                rep.add(case, v)
        ev.assumptions = ["server and client run in the same process, hence the same time zone and the same wall clock (a jump may happen between listings, not inside one)", "inside the one-day window around the half-year boundary, where the year-less ls format is inherently ambiguous, only names / types / sizes are compared", "sizes up to 2^40 come from a stat override in the spy backend (no allocation)"]
        code = rep.finish(minimise=minimise, confirm=confirm)
    ev.write()
    print(f"{PROP}: {ev.evaluations} runs, {len(ev.nontrivial_digests)} distinct non-trivial, {ev.violations} violation classes, exit {code}")
    return code
