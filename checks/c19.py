"""C19 - malformed input from the peer is contained on both sides.

Server half: one hostile raw peer (grammar-aware mutator: valid verbs with mutated
arguments, raw random bytes, invalid UTF-8, NUL, bare CR / LF, lines around and beyond the
64 KiB stream limit, no terminator then FIN, FIN / RST inside a line; seeded segmentation)
next to 1..2 well-behaved sessions running corpus scripts.  Oracle: the well-behaved
sessions observe exactly what they observe when running alone; a fresh session can log in
afterwards; the hostile session continues or is closed, and if closed its resources are
released (C12 ledger); nothing reaches the loop's exception handler.

Client half: the real client against a scripted fake server that sends mutated greetings /
replies (over-long, non-digit codes, endless continuation, premature FIN), mutated 227 /
229 / 257 payloads, listings derived by mutating valid unix / windows / MLSx lines, and finite
trees containing '.' and '..' entries for list(recursive=True).  Oracle: every entry point
returns or raises an Exception subclass within a bounded virtual time (the fake server
always ends with FIN); listing lines: entries or ValueError, and every non-empty line is
accounted for (yielded, '.'/'..', or the raised error); recursion terminates and yields
each real entry once.
"""

from __future__ import annotations

import asyncio
import gc
import pathlib
import random
import re
import time

from checks import common
from checks.c13 import essence, _diff, _j
from simftp import corpus, scenario
from simftp.peers import PeerGone, RawPeer, ReplyTimeout
from simftp.world import SESSION, aioftp

PROP = "C19"
VERBS = ["USER", "PASS", "CWD", "MKD", "RMD", "DELE", "RNFR", "RNTO", "MLST", "MLSD", "LIST", "RETR", "STOR", "APPE", "TYPE", "PBSZ", "PROT", "PASV", "EPSV", "ABOR", "REST", "SYST", "QUIT", "PWD", "CDUP", "NOOP", "FEAT"]


def hostile_lines(rnd):
    out = []
    for _ in range(rnd.randint(1, 10)):
        k = rnd.random()
        if k < 0.25:
            v = rnd.choice(VERBS)
            arg = rnd.choice(["", "x", "../" * 40, "\x00", "a\x00b", "\xff\xfe", "%s%s%n", "A" * 300, " " * 50, "\t", "-1", "9" * 400, "9" * 5000, "²³", "‮", "a\rb", "(|||99999999|)", "1,2,3,4,5"])
            line = (v + " " + arg).encode("utf-8", "surrogatepass") + b"\r\n"
        elif k < 0.4:
            line = bytes(rnd.getrandbits(8) for _ in range(rnd.randint(1, 40))) + b"\r\n"
        elif k < 0.5:
            line = rnd.choice([b"\xc3\x28\r\n", b"\xff\xff\xff\r\n", b"USER \xe4\xf6\xfc\r\n", b"PASS \xa0\xa1\r\n", b"\xf0\x28\x8c\x28 x\r\n", b"CWD \xed\xa0\x80\r\n", b"MKD /caf\xe9\r\n", b"MKD /\xff\xfe\r\n", b"MKD \xed\xa0\x80\r\n", b"MKD /hostile\r\nMKD /hostile/\xc3\x28\r\n"])
        elif k < 0.6:
            line = rnd.choice([b"\r\n", b"\n", b"\r", b"\r\r\n", b" \r\n", b"\n\n\n", b"USER a\nUSER b\n", b"PWD\rPWD\r\n"])
        elif k < 0.7:
            n = rnd.choice([65535, 65536, 65537, 70000, 200000])
            line = b"CWD " + b"A" * n + rnd.choice([b"\r\n", b""])
        elif k < 0.8:
            line = rnd.choice([b"PASV\r\n\xff\xfe\r\n", b"EPSV\r\n\xc3\x28\r\n", b"EPSV\r\nCWD " + b"A" * 70000 + b"\r\n", b"USER anonymous\r\nEPSV\r\n\xff\r\n", b"USER anonymous\r\n", b"PWD\r\n", b"EPSV\r\n", b"MLSD\r\n", b"REST 5\r\n", b"USER u1\r\n", b"USER u1\r\nPASS \xff\xfe\r\n", b"NOOP\r\n" * 20 + b"QUIT\r\n", b"QUIT\r\n"])
        else:
            line = rnd.choice([b"USER", b"PAS", b"RETR f", b"\xe2\x82", b"CWD /s0"])  # no terminator
        out.append(line.decode("latin-1"))
    return out


def gen_server_case(seed):
    rnd = random.Random(seed * 1783 + 3)
    names = sorted(n for n in corpus.scripts() if n not in ("no_dconn", "relogin", "pipelined"))
    case = {"mode": "server", "seed": seed, "hostile": hostile_lines(rnd), "end": rnd.choice(["fin", "rst", "hold", "fin", "fin-midline"]), "login_first": rnd.random() < 0.5, "scripts": [rnd.choice(names) for _ in range(rnd.randint(1, 2))]}
    if rnd.random() < 0.5:
        # a restricted passive port pool, large enough for every session that can be alive at once
        # (hostile + two scripted + the fresh one): a port the hostile session loses is a
        # resource it did not release
        case["data_ports"] = [40100, 40101, 40102, 40103]
    return case


def build_good(case, only=None):
    B = 16
    rng = random.Random(case["seed"] * 7919 + 109)
    net = scenario.random_net(rng, allow_small_pipe=False)
    if case.get("noread"):
        net["capacity"], net["high_water"] = 16, 16
    if sum(len(x) for x in case.get("hostile") or ()) > 20000 and (net.get("seg_mode") == "dribble" or net.get("seg_max", 1460) < 256):
        # a 200000-byte line in 1-byte segments is 200000 simulated network events: keep the
        # segmentation but not below a few hundred bytes per segment
        net["seg_mode"], net["seg_max"] = "random", 1460
    S = corpus.scripts(B)
    tree = {}
    sessions = []
    for i, name in enumerate(case["scripts"]):
        prefix = f"/s{i}"
        tree.update(corpus.tree(prefix, B))
        script = [list(op) for op in S[name]]
        if script[-1][0] != "quit":
            script.append(["quit"])
        if only is not None and i != only:
            continue
        sessions.append({"label": f"s{i}", "script": script, "prefix": prefix, "start": 0.0 if only is not None else 0.001 * i, "data_timeout": 2000.0, "reply_timeout": 5000.0})
    return {"seed": case["seed"], "server": {"block_size": B, "idle_timeout": None, "socket_timeout": None, "wait_future_timeout": None, "users": [dict(u, maximum_connections=1) if u.get("login") == "u1" else u for u in corpus.USERS], "data_ports": case.get("data_ports")}, "net": net, "fs": {"delay": [0.0001, 0.002], "tree": tree}, "sessions": sessions, "faults": [], "settle": 200.0, "session_deadline": 50000.0, "final_close": True}


def run_server_case(case):
    viol = []
    ref = {}
    for i in range(len(case["scripts"])):
        obs = scenario.run_scenario(build_good(case, only=i))
        if obs.outcome != "ok":
            raise common.HarnessError(f"solo run failed: {obs.outcome}: {obs.error!r}")
        ref[i] = _j(essence(obs.sessions[f"s{i}"]))
    info = {}
    sc = build_good(case)

    def inspect(world, obs, phase):
        if phase == "started":
            # the hostile peer is an extra task next to the scripted sessions
            async def hostile():
                p = RawPeer(world, "hostile", reply_timeout=30.0)
                info["peer"] = p
                try:
                    await p.connect()
                    if case["login_first"]:
                        await p.cmd("USER anonymous")
                    if case.get("noread"):
                        # the hostile peer reads (almost) nothing from now on: the server's replies
                        # back up into its blocked writer
                        p.reader._limit = 8
                    for ln in case["hostile"]:
                        data = ln.encode("latin-1")
                        p.writer.write(data)
                        try:
                            await asyncio.wait_for(p.writer.drain(), 50.0)
                        except (asyncio.TimeoutError, ConnectionError):
                            break
                        await asyncio.sleep(world.rng("hostile").choice([0.0, 0.0005, 0.01]))
                    end = case["end"]
                    await asyncio.sleep(0.05)
                    if end in ("fin", "fin-midline"):
                        if end == "fin-midline":
                            p.writer.write(b"CWD /s")
                        p.writer.close()
                    elif end == "rst":
                        p.writer.transport.abort()
                    elif end == "stay":
                        # the peer keeps its socket open for good and never reads it: whatever
                        # the server decided about the session, it cannot wait for this peer
                        await asyncio.sleep(1e7)
                    else:
                        await asyncio.sleep(100.0)
                        p.writer.close()
                except (PeerGone, ReplyTimeout, ConnectionError, OSError):
                    pass

            info["task"] = world.spawn(hostile(), "hostile")
        elif phase == "settled":
            net = world.net
            p = info.get("peer")
            if p is not None and p.writer is not None:
                ctl = p.writer.transport
                srv = ctl.conn.ends.get("s")
                ended = ctl._closing or ctl._lost_called or (srv is not None and (srv._closing or srv._lost_called))
                info["hostile_ended"] = bool(ended)
                if ended:
                    for t in net.transports:
                        if t.side == "s" and t.conn.label == "hostile" and not t._closing and not t._lost_called:
                            viol.append({"clause": "hostile-session-leaves-socket", "subject": "ledger", "detail": f"server-side transport of the hostile session still open (conn {t.conn.id}, port {t.conn.port})"})
                    for port, lst in net.listeners.items():
                        if lst.label == "hostile":
                            viol.append({"clause": "hostile-session-leaves-listener", "subject": "ledger", "detail": f"passive listener {port} of the hostile session still open"})
                    for conn in list(world.server.connections.values()):
                        try:
                            lab = conn.command_connection.writer.transport.conn.label
                        except Exception:
                            lab = None
                        if lab == "hostile":
                            viol.append({"clause": "hostile-session-leaves-table-entry", "subject": "ledger", "detail": "the server has closed the hostile session's control connection, but the session is still in Server.connections"})
                    cur = asyncio.current_task(world.loop)
                    for t in asyncio.all_tasks(world.loop):
                        if t is cur or t is info.get("task") or t.done():
                            continue
                        try:
                            lab = t.get_context().get(SESSION)
                        except Exception:
                            lab = None
                        if lab == "hostile":
                            viol.append({"clause": "hostile-session-leaves-task", "subject": "ledger", "detail": f"server task of the hostile session still pending: {t.get_coro().__qualname__}"})
            # the listener keeps accepting: a fresh session logs in
            async def fresh():
                q = RawPeer(world, "fresh", reply_timeout=30.0)
                try:
                    code, _ = await q.connect()
                    c2, _ = await q.cmd("USER anonymous")
                    c3, _ = await q.cmd("PWD")
                    info["fresh"] = (code, c2, c3)
                    # the account with a single slot (which the hostile session may have named and
                    # then botched) can still log in
                    c4, _ = await q.cmd("USER u1")
                    c5, _ = await q.cmd("PASS pw1")
                    info["fresh_u1"] = (c4, c5)
                    await q.cmd("USER anonymous")
                    # whatever the hostile session left in the shared tree, an ordinary session
                    # can still list it (root and the directories the hostile lines name)
                    lst = []
                    for line in ("MLSD /", "LIST /", "MLSD /hostile", "LIST /hostile"):
                        r = await q.download(line, passive="EPSV", connect="before", data_timeout=50.0)
                        lst.append((line, r["mark"], r["final"]))
                    info["fresh_listings"] = lst
                    await q.cmd("QUIT")
                except (PeerGone, ReplyTimeout, ConnectionError, OSError) as e:
                    info["fresh"] = ("failed", type(e).__name__)
                q.close()

            return fresh()
        elif phase == "closed" and case.get("data_ports"):
            try:
                pool = sorted(p for (_prio, p) in list(world.server.available_data_ports._queue))
            except Exception:
                pool = None
            info["pool_at_end"] = pool

    sc["settle"] = 300.0
    obs = scenario.run_scenario(sc, inspect=inspect)
    gc.collect()
    world = obs.world
    if obs.outcome == "spin" and common.spin_site(world):
        fn, where = common.spin_site(world)
        viol.append({"clause": "event-loop-frozen", "subject": f"server:{fn}", "detail": f"after the hostile input {_short(case)} a single callback never returned to the event loop (spinning in {fn} at {where}): the whole server is frozen"})
        return _res(world, case, viol, {"mode.server": 1, "probe.spin_detected": 1}, world.digest(repr(case)))
    if obs.outcome not in ("ok", "deadlock", "budget"):
        raise common.HarnessError(f"scenario failed: {obs.outcome}: {obs.error!r}")
    if obs.outcome == "budget":
        # the step budget of the simulation ran out (cost of the simulated network, not a property
        # of the server): nothing is concluded from an unfinished run
        if world.net.seq > 50000:
            return _res(world, case, [], {"mode.server": 1, "inconclusive.step_budget": 1}, obs.digest)
        # 400000 loop steps with hardly any network traffic: tasks that keep rescheduling
        # themselves without getting anywhere
        viol.append({"clause": "hang", "subject": "livelock", "detail": f"step budget exhausted after only {world.net.seq} network events ({_short(case)})"})
        return _res(world, case, viol, {"mode.server": 1}, obs.digest)
    if obs.outcome == "deadlock":
        viol.append({"clause": "hang", "subject": "server", "detail": "simulation deadlocked"})
    for i, e_ref in ref.items():
        s = obs.sessions.get(f"s{i}")
        e = _j(essence(s)) if s is not None else None
        if e != e_ref:
            viol.append({"clause": "bystander-session-disturbed", "subject": "transcript", "detail": f"session s{i} ({case['scripts'][i]}) next to the hostile peer: {_diff(e, e_ref)}"})
    if info.get("fresh") != ("220", "230", "257"):
        viol.append({"clause": "server-stopped-serving", "subject": "fresh-session", "detail": f"a fresh session after the hostile input got {info.get('fresh')}"})
    else:
        if info.get("fresh_u1") not in (None, ("331", "230")) and info.get("hostile_ended"):
            viol.append({"clause": "server-stopped-serving", "subject": "fresh-session-login", "detail": f"after the hostile session {_short(case)} had ended, USER u1 / PASS pw1 (account limited to one session) answered {info.get('fresh_u1')}"})
        for line, mark, final in info.get("fresh_listings", [("MLSD /", None, None)]):
            ok = (mark or "")[:1] == "1" and (final or "")[:1] == "2"
            if not ok and not (line.endswith("/hostile") and (final or "").startswith("550")):
                viol.append({"clause": "server-stopped-serving", "subject": "fresh-session-listing", "detail": f"after the hostile input {_short(case)} a fresh session's {line!r} ended with mark {mark} final {final}"})
                break
    if case.get("data_ports") and info.get("pool_at_end") is not None and info["pool_at_end"] != sorted(case["data_ports"]):
        viol.append({"clause": "hostile-session-leaves-port", "subject": "ledger", "detail": f"after the hostile input {_short(case)} and the end of every session the passive port pool holds {info['pool_at_end']}, configured {sorted(case['data_ports'])}"})
    for e in world.loop.exc_log:
        if "never retrieved" in e["message"]:
            continue
        viol.append({"clause": "unhandled-exception", "subject": str(e["exc_type"]), "detail": f"{e['message']}: {e['exception']}"})
    return _res(world, case, viol, {"mode.server": 1, "hostile_lines": len(case["hostile"]), "probe.hostile_session_closed_by_server": int(bool(info.get("hostile_ended")))}, obs.digest)


# ----------------------------------------------------------------------- client half

UNIX_LINES = ["-rw-r--r-- 1 none none 12 Jan  1  2001 a.txt", "drwxr-xr-x 2 owner group 4096 Nov 14 22:13 sub", "lrwxrwxrwx 1 root root 7 Mar  3 10:10 lnk -> target/", "-rwsr-xr-t 1 0 0 0 Feb 29 12:00 leap", "drwxrwxrwx 1 none none 0 Nov 14 22:13 ."]
WIN_LINES = ["11/14/2023  10:13 PM    <DIR>          folder", "01/02/2003  01:02 AM             1,234 file.txt", "11/14/2023  10:13 PM    <DIR>          ."]
MLSX_LINES = ["Size=12;Create=20010101000000;Modify=20010101000000;Type=file; a.txt", "Size=0;Modify=20231114221320;Type=dir; sub", "type=cdir; .", "type=pdir; ..", "Type=dir; ..", "Size=5;Type=file; x y"]


_NUM = re.compile(rb"\d+")
_WIN_NAME = re.compile(r"^\S+\s+\S+\s+[AP]M\s+(?:<DIR>|[\d,]+)\s*(.*?)\s*$")
# (the name follows the first plain blank after the eighth column; control characters that count as
# white space - \x1c..\x1f, \t ... - in front of that blank belong to the separator, as they do for the client)
_UNIX_NAME = re.compile(r"^\S+\s+\S+\s+\S+\s+\S+\s+\S+\s+\S+\s+\S+\s+\S+(?:[^\S ]* (.*))?$")


def _line_name(family, ln):
    """the name field of a listing line as a reader of the format would take it (None if the
    line does not have that shape); 'x -> y' names x"""
    try:
        if family == "mlsx":
            return ln.partition(" ")[2]
        if family == "unix":
            m = _UNIX_NAME.match(ln)
            if not m and ln[:1].isspace():
                # the type character itself was mutated into a blank: the first column is still the
                # first ten characters (the client reads it by position, type 'unknown')
                m = _UNIX_NAME.match("?" + ln[1:])
            if not m:
                return None
            name = m.group(1) or ""  # eight columns and nothing after them: the name is empty
            return name.split(" -> ")[0] if ln[:1] == "l" else name
        m = _WIN_NAME.match(ln)
        return m.group(1) if m else None
    except Exception:
        return None


def mutate(rnd, line):
    b = bytearray(line.encode("utf-8"))
    if rnd.random() < 0.25:
        # grammar-aware: one numeric field (size, day, year, hour, minute, link count, time fact)
        # becomes out of range - by a little, or by far more than a machine word holds
        fields = list(_NUM.finditer(bytes(b)))
        if fields:
            m = rnd.choice(fields)
            rep = rnd.choice([b"0", b"00", b"99", b"-1", b"4294967296", b"9" * 10, b"2" * 20, b"1" * 40, m.group() * 6, b"9" * 400])
            b[m.start() : m.end()] = rep
    if b" -> " in bytes(b) and rnd.random() < 0.4:
        # grammar-aware: the link arrow of a symlink entry goes missing / loses its target / its blanks
        head, _, tail = bytes(b).partition(b" -> ")
        b = bytearray(rnd.choice([head, head + b" -> ", head + b"->" + tail, head + b" -> " + tail + b" -> x", head + b" ->", b"l" + head[1:]]))
    for _ in range(rnd.randint(0, 3)):
        k = rnd.random()
        if not b:
            break
        i = rnd.randrange(len(b))
        if k < 0.25:
            del b[i]
        elif k < 0.5:
            b[i] = rnd.randrange(256)
        elif k < 0.7:
            b[i:i] = rnd.choice([b" ", b";", b"=", b"-", b"\xff", b"\x00", b"M", b"  ", b"Feb 30", b"13/45/0000"])
        elif k < 0.85:
            del b[i:]
        else:
            j = rnd.randrange(len(b))
            b[i], b[j] = b[j], b[i]
    return bytes(b).replace(b"\r", b"").replace(b"\n", b"")


def gen_client_case(seed):
    rnd = random.Random(seed * 911 + 5)
    kind = rnd.choice(["greeting", "reply", "pasv", "pwd", "listing", "listing", "listing", "recursive"])
    case = {"mode": "client", "seed": seed, "kind": kind}
    if kind == "greeting":
        case["greeting"] = rnd.choice(["220 ok\r\n", "220-" + "x" * 70000 + "\r\n220 end\r\n", "abc def\r\n", "22\r\n", "\r\n", "220", "", "220-a\r\n" * 50, "120 wait\r\n" * 5 + "220 ok\r\n", "\xff\xfe\r\n", "220-never ends\r\n", "421 busy\r\n", "2200 ok\r\n", " 220 ok\r\n"])
    elif kind == "reply":
        case["reply"] = rnd.choice(["257\r\n", "2\r\n", "xyz\r\n", "", "257-a\r\n", "257-a\r\n258 b\r\n", "257 " + "q" * 70000 + "\r\n", "\x00\x01\x02\r\n", "257 \xff\xff\r\n", "-\r\n", "257-\r\n" * 100 + "257 x\r\n"])
    elif kind == "pasv":
        case["verb"] = rnd.choice(["epsv", "pasv"])
        case["payload"] = rnd.choice(["", "()", "(|||)", "(|||x|)", "(|||99999999|)", "(|||-1|)", "(1,2,3)", "(1,2,3,4,5,6,7)", "(a,b,c,d,e,f)", "(256,0,0,1,1,1)", "(1,2,3,4,999,999)", "no parens at all", "(|||40001|) (|||", "((((", "(|1|2|3|)", "(127,0,0,1,156,65)", "(|||40001|)"])
        x = rnd.random()
        if x < 0.25:
            # the closing parenthesis lost and / or a number grown far beyond its range
            run = rnd.choice("0123456789") * rnd.choice([12, 24, 40, 80, 400])
            case["payload"] = rnd.choice(["(127,0,0,1,156," + run, "(127,0,0,1,156,65", "(127,0,0,1," + run + ",65", "entering passive mode (127,0,0,1,156," + run + "x)", "(" + run, "(|||" + run, "(|||40001", "(|||" + run + "|", "(" + ",".join([run] * 6) + ")", "(|||" + run + "|)", "(127,0,0,1,156,65) (" + run])
        elif x < 0.5:
            case["payload"] = mutate(rnd, rnd.choice(["entering passive mode (127,0,0,1,156,65).", "listen socket created (|||40001|)", "=127,0,0,1,156,65"])).decode("latin-1")
    elif kind == "pwd":
        case["payload"] = rnd.choice(["", '"', '""', '"/a', '/a"', "no quotes", '"/a""b"', '"' * 99, '"/\x00"', '"//"', '"relative"', '"/a" extra', '""" """'])
    elif kind == "listing":
        fam = rnd.choice(["unix", "win", "mlsx"])
        src = {"unix": UNIX_LINES, "win": WIN_LINES, "mlsx": MLSX_LINES}[fam]
        lines = []
        for _ in range(rnd.randint(1, 6)):
            ln = rnd.choice(src)
            lines.append(mutate(rnd, ln).decode("latin-1") if rnd.random() < 0.7 else ln)
        case["family"] = fam
        case["lines"] = lines
        case["cmd"] = "MLSD" if fam == "mlsx" else "LIST"
        case["serve_mode"] = rnd.choice(["normal", "normal", "slow426", "stall"])
    else:
        # a finite tree whose listings contain '.' and '..' entries
        fam = rnd.choice(["unix", "mlsx"])
        tree = {"": ["d1", "d2", "f0"], "d1": ["f1", "d3"], "d2": [], "d1/d3": ["f3"]}
        case["family"] = fam
        case["tree"] = tree
        case["dots"] = rnd.choice(["both", "dot", "dotdot", "as-dirs"] + (["pathnames", "pathnames"] if fam == "mlsx" else []))
    return case


async def fake_server(world, case, log):
    """scripted server good enough for aioftp.Client; returns the asyncio server"""
    state = {"data": None, "lst": None}

    def listing_for(path):
        fam = case.get("family", "mlsx")
        if case["kind"] == "listing":
            return [ln.encode("latin-1") for ln in case["lines"]]
        tree = case["tree"]
        key = str(path).strip("/")
        key = "" if key in (".",) else key
        out = []
        names = tree.get(key)
        if names is None:
            return None
        dots = {"both": [".", ".."], "dot": ["."], "dotdot": [".."], "as-dirs": [".", ".."], "pathnames": []}[case["dots"]]
        if case["dots"] == "pathnames":
            # RFC 3659 lets a server name the cdir / pdir entries by pathname instead of '.' / '..'
            out.append(f"type=cdir;modify=20010101000000; /{key}".encode())
            out.append(f"type=pdir;modify=20010101000000; /{key.rpartition('/')[0]}".encode())
        for nm in dots + list(names):
            isdir = nm in (".", "..") or (key + "/" + nm).strip("/") in tree
            if fam == "mlsx":
                if nm == "." and case["dots"] != "as-dirs":
                    out.append(b"type=cdir; .")
                elif nm == ".." and case["dots"] != "as-dirs":
                    out.append(b"type=pdir; ..")
                else:
                    out.append(f"Type={'dir' if isdir else 'file'};Size=0; {nm}".encode())
            else:
                out.append(f"{'d' if isdir else '-'}rwxr-xr-x 1 none none 0 Jan  1  2001 {nm}".encode())
        return out

    async def data_handler(reader, writer):
        state["data"] = (reader, writer)

    async def handler(reader, writer):
        async def send(s):
            writer.write(s.encode("latin-1") if isinstance(s, str) else s)
            await writer.drain()

        try:
            if case["kind"] == "greeting":
                await send(case["greeting"])
                await asyncio.sleep(5.0)
                writer.close()
                return
            await send("220 hello\r\n")
            while True:
                line = await reader.readline()
                if not line:
                    break
                cmd, _, arg = line.decode("utf-8", "replace").strip().partition(" ")
                cmd = cmd.upper()
                log.append(cmd)
                if cmd == "USER":
                    await send("230 ok\r\n")
                elif cmd == "TYPE":
                    await send("200 ok\r\n")
                elif cmd in ("EPSV", "PASV"):
                    if case["kind"] == "pasv":
                        if case["verb"].upper() != cmd:
                            await send("500 no\r\n")
                            continue
                        await send(("229 " if cmd == "EPSV" else "227 ") + case["payload"] + "\r\n")
                        continue
                    if state["lst"] is None:
                        state["lst"] = await asyncio.start_server(data_handler, "127.0.0.1", 40001)
                    state["data"] = None
                    await send("229 ok (|||40001|)\r\n" if cmd == "EPSV" else "227 ok (127,0,0,1,156,65)\r\n")
                elif cmd == "PWD":
                    if case["kind"] == "reply":
                        await send(case["reply"])
                        await asyncio.sleep(5.0)
                        break
                    await send("257 " + case.get("payload", '"/"') + "\r\n")
                elif cmd in ("MLSD", "LIST"):
                    if case["kind"] in ("listing",) and cmd != case["cmd"]:
                        await send("502 no\r\n")
                        continue
                    if case["kind"] == "recursive" and case["family"] == "unix" and cmd == "MLSD":
                        await send("502 no\r\n")
                        continue
                    lines = listing_for(pathlib.PurePosixPath(arg or "."))
                    if lines is None:
                        await send("550 nope\r\n")
                        continue
                    await send("150 go\r\n")
                    for _ in range(200):
                        if state["data"] is not None:
                            break
                        await asyncio.sleep(0.01)
                    if state["data"] is None:
                        await send("425 no data\r\n")
                        continue
                    dr, dw = state["data"]
                    state["data"] = None
                    mode = case.get("serve_mode", "normal") if case["kind"] == "listing" else "normal"
                    if mode == "normal":
                        for ln in lines:
                            dw.write(ln + b"\r\n")
                        try:
                            await dw.drain()
                        except ConnectionError:
                            pass
                        dw.close()
                        await send("226 done\r\n")
                    else:
                        # a server that sends the listing line by line; if the client closes the
                        # data connection before the end it says so (426); in "stall" mode it goes
                        # silent after the last line instead of finishing
                        aborted = False
                        for ln in lines:
                            if dw.transport.is_closing() or dr.at_eof():
                                aborted = True
                                break
                            dw.write(ln + b"\r\n")
                            try:
                                await dw.drain()
                            except ConnectionError:
                                aborted = True
                                break
                            await asyncio.sleep(0.05)
                        if mode == "stall" and not aborted:
                            for _ in range(100000):
                                if dw.transport.is_closing() or dr.at_eof():
                                    aborted = True
                                    break
                                await asyncio.sleep(0.05)
                        dw.close()
                        await send("426 transfer aborted\r\n" if aborted else "226 done\r\n")
                elif cmd == "MLST":
                    await send("502 no\r\n")
                elif cmd == "QUIT":
                    await send("221 bye\r\n")
                    break
                else:
                    await send("502 no\r\n")
        except (ConnectionError, asyncio.IncompleteReadError):
            pass
        finally:
            writer.close()

    return await asyncio.start_server(handler, "127.0.0.1", 2121)


def run_client_case(case):
    rng = random.Random(case["seed"] * 7919 + 113)
    net = scenario.random_net(rng, allow_small_pipe=False)
    net["latency"] = [0.0005, 0.001]
    sc = {"seed": case["seed"], "net": net}
    viol = []
    info = {}
    world = scenario.setup_world(sc, max_steps=1_500_000)
    kind = case["kind"]
    with world:
        scenario.apply_net(world.net, net)
        log = []
        client = aioftp.Client(path_io_factory=aioftp.MemoryPathIO)

        async def call(name, coro, limit=2000.0):
            """run one client entry point: result, or the exception it raised"""
            try:
                res = await asyncio.wait_for(coro, limit)
                return ("ok", res)
            except asyncio.TimeoutError:
                viol.append({"clause": "client-hangs", "subject": f"{kind}:{name}", "detail": f"{name} did not return within {limit} virtual seconds although the server had sent everything and closed ({_short(case)})"})
                return ("hang", None)
            except Exception as e:  # an ordinary exception is a legitimate outcome
                return ("exc", e)
            except BaseException as e:  # noqa
                if isinstance(e, asyncio.CancelledError):
                    raise
                viol.append({"clause": "client-raises-non-exception", "subject": f"{kind}:{name}", "detail": f"{name} raised {type(e).__name__} ({_short(case)})"})
                return ("exc", e)

        async def main():
            srv = await fake_server(world, case, log)
            st, r = await call("connect", client.connect("127.0.0.1", 2121))
            info["connect"] = st
            if kind == "greeting" or st != "ok":
                client.close()
                srv.close()
                return
            st, r = await call("login", client.login())
            if st != "ok":
                client.close()
                srv.close()
                return
            if kind in ("reply", "pwd"):
                st, r = await call("get_current_directory", client.get_current_directory())
                info["pwd"] = (st, repr(r)[:80])
                if st == "ok" and not isinstance(r, pathlib.PurePosixPath):
                    viol.append({"clause": "client-returns-ill-typed-value", "subject": kind, "detail": f"get_current_directory returned {r!r}"})
            elif kind == "pasv":
                st, r = await call("list", client.list())
                info["list"] = (st, type(r).__name__)
            elif kind == "listing":
                nonempty = [ln for ln in case["lines"] if ln.strip()]
                unparseable = []
                for ln in case["lines"]:
                    if not ln.strip():
                        continue  # (the lister skips blank lines without parsing them)
                    try:
                        (client.parse_mlsx_line if case["cmd"] == "MLSD" else client.parse_list_line)(ln.encode("latin-1"))
                    except Exception:
                        unparseable.append(ln)
                if case.get("serve_mode") == "stall" and not unparseable:
                    case["serve_mode"] = "slow426"  # (a silent server after a well-formed listing is not this property's business)
                st, r = await call("list", client.list(raw_command=case["cmd"]))
                if unparseable and case.get("serve_mode", "normal") != "normal" and not (st == "exc" and isinstance(r, ValueError)):
                    viol.append({"clause": "unparseable-line-not-reported-as-ValueError", "subject": f"{case['family']}:{case['serve_mode']}", "detail": f"the server sent {case['lines']!r} line by line ({case['serve_mode']}); the client cannot parse {unparseable[:2]!r} but list() ended with {st} {r!r}"[:500]})
                if st == "ok":
                    ok_types = isinstance(r, list) and all(isinstance(p, pathlib.PurePosixPath) and isinstance(i, dict) for p, i in r)
                    if not ok_types:
                        viol.append({"clause": "client-returns-ill-typed-value", "subject": kind, "detail": f"list() returned {r!r}"[:300]})
                    # every non-empty line is accounted for: yielded, or a '.' / '..' entry (judged
                    # from the text of the line, not by asking the client's own parser)
                    def _is_dot(nm):
                        # ('./', './/', '../' ... are the same entries to a path library)
                        return nm is not None and nm.strip() != "" and str(pathlib.PurePosixPath(nm.strip())) in (".", "..")

                    dots = sum(1 for ln in nonempty if _is_dot(_line_name(case["family"], ln)))
                    # (a line whose name field is empty comes out of the parsers as PurePosixPath("") == ".",
                    # and is skipped like a '.' entry: recorded as a known finding, matched by its subject)
                    empties = sum(1 for ln in nonempty if _line_name(case["family"], ln) is not None and _line_name(case["family"], ln).strip() == "")
                    if isinstance(r, list) and len(r) + dots < len(nonempty) and len(r) + dots + empties >= len(nonempty):
                        viol.append({"clause": "listing-line-dropped", "subject": f"{case['family']}:empty-name", "detail": f"{len(nonempty)} non-empty lines were sent, list() yielded {len(r)} entries (+{dots} dot entries) and raised nothing; the dropped line(s) have an empty name field: {case['lines']!r}"[:500]})
                    elif isinstance(r, list) and len(r) + dots < len(nonempty):
                        viol.append({"clause": "listing-line-dropped", "subject": case["family"], "detail": f"{len(nonempty)} non-empty lines were sent, list() yielded {len(r)} entries (+{dots} dot entries) and raised nothing: {case['lines']!r}"[:500]})
                elif st == "exc":
                    if not isinstance(r, (ValueError, aioftp.StatusCodeError, ConnectionError)):
                        viol.append({"clause": "listing-raises-undocumented-exception", "subject": f"{case['family']}:{type(r).__name__}", "detail": f"list() over lines {case['lines']!r} raised {type(r).__name__}: {r!r}"[:500]})
            elif kind == "recursive":
                st, r = await call("list-recursive", client.list("", recursive=True), limit=5000.0)
                if st == "ok":
                    # (entries typed cdir / pdir - the listed directory itself and its parent
                    # under their pathnames - are well-typed results, not members of the tree)
                    got = sorted(str(p) for p, i in r if i.get("type") not in ("cdir", "pdir"))
                    want = sorted(["d1", "d2", "f0", "d1/f1", "d1/d3", "d1/d3/f3"])
                    if got != want:
                        viol.append({"clause": "recursive-listing-wrong", "subject": f"{case['family']}:{case['dots']}", "detail": f"recursive listing over a tree with '.'/'..' entries returned {got}, expected {want}"})
                elif st == "exc":
                    if not isinstance(r, ValueError):
                        viol.append({"clause": "recursive-listing-failed", "subject": f"{case['family']}:{case['dots']}", "detail": f"{type(r).__name__}: {r!r}"[:300]})
                info["list_cmds"] = sum(1 for c in log if c in ("LIST", "MLSD"))
                if info["list_cmds"] > 40:
                    viol.append({"clause": "client-loops", "subject": f"{case['family']}:{case['dots']}", "detail": f"the client issued {info['list_cmds']} listing commands for a tree of 4 directories"})
            client.close()
            srv.close()
            await asyncio.sleep(1)

        world.run(main())
        gc.collect()
        if world.outcome == "deadlock":
            viol.append({"clause": "client-hangs", "subject": f"{kind}:deadlock", "detail": f"client and fake server wait for each other for ever ({_short(case)})"})
        elif world.outcome == "budget":
            viol.append({"clause": "client-loops", "subject": f"{kind}:budget", "detail": f"step budget exhausted ({_short(case)})"})
        elif world.outcome == "spin" and common.spin_site(world):
            fn, where = common.spin_site(world)
            viol.append({"clause": "client-loops", "subject": f"{kind}:spin", "detail": f"the client never returned to the event loop (spinning in {fn} at {where}) ({_short(case)})"})
        elif world.outcome != "ok":
            raise common.HarnessError(f"scenario failed: {world.outcome}: {world.error!r}")
        return _res(world, case, viol, {"mode.client": 1, f"kind.{kind}": 1}, world.digest(repr(case)))


def _short(case):
    d = {k: (v if not isinstance(v, str) or len(v) < 60 else v[:60] + "...") for k, v in case.items() if k not in ("want_sample",)}
    return repr(d)[:300]


def _res(world, case, viol, counters, digest):
    seen = set()
    out = []
    for v in viol:
        key = (v["clause"], v["subject"])
        if key not in seen:
            seen.add(key)
            out.append(v)
    res = {"digest": digest, "nontrivial": True, "vtime": world.loop.time() - 1000.0, "events": world.net.seq, "steps": world.loop.steps, "outcome": world.outcome, "counters": counters, "violations": out, "budget_is_verdict": True}
    if case.get("want_sample"):
        res["sample"] = {"case": {k: (v if not isinstance(v, str) or len(v) < 200 else v[:200] + "...") for k, v in case.items()}}
    return res


def run_case(case):
    return run_server_case(case) if case["mode"] == "server" else run_client_case(case)


def confirm(case, violation):
    r = run_case(case)
    return any(v["clause"] == violation["clause"] and v["subject"] == violation["subject"] for v in r["violations"])


def minimise(case, violation):
    import copy

    def bad(c):
        try:
            r = run_case(c)
        except Exception:
            return False
        return any(v["clause"] == violation["clause"] and v["subject"] == violation["subject"] for v in r["violations"])

    cur = copy.deepcopy(case)
    cur.pop("want_sample", None)
    key = "hostile" if cur["mode"] == "server" else ("lines" if cur.get("kind") == "listing" else None)
    if key:
        i = len(cur[key]) - 1
        while i >= 0 and len(cur[key]) > 1:
            trial = copy.deepcopy(cur)
            del trial[key][i]
            if bad(trial):
                cur = trial
            i -= 1
    if cur["mode"] == "server" and len(cur["scripts"]) > 1:
        trial = copy.deepcopy(cur)
        trial["scripts"] = trial["scripts"][:1]
        if bad(trial):
            cur = trial
    return cur, violation


def selftest_cases(n):
    return [gen_server_case(180_000 + i) for i in range(n // 3)] + [gen_client_case(181_000 + i) for i in range(n - n // 3)]


def main(argv=None):
    a = common.tier_and_seed(argv)
    if a.replay:
        import json

        doc = json.load(open(a.replay))
        r = run_case(doc["case"])
        hit = [v for v in r["violations"] if v["clause"] == doc["clause"]]
        if hit:
            print(f"reproduced: {hit[0]}")
            print(f"VIOLATION property={PROP} replay={a.replay}")
            return 1
        print("not reproduced")
        return 0
    quick = a.tier == "quick"
    ev = common.Evidence(PROP, a.tier, a.seed, "exploration", "(server) seeded hostile control-channel input (mutated verbs / arguments, raw bytes, invalid UTF-8, NUL, bare CR / LF, lines of 65535..200000 bytes, missing terminator, FIN / RST inside a line) next to 1..2 corpus sessions whose transcripts are compared with their solo runs, followed by a fresh login and a resource ledger for the hostile session; (client) the real client against a scripted server with mutated greetings / replies / 227 / 229 / 257 payloads, listings mutated from valid unix / windows / MLSx lines, and finite trees with '.' / '..' entries listed recursively; every call must return or raise an Exception within a bounded virtual time; non-trivial = every run; distinct = distinct run digests")
    rep = common.Reporter(PROP, ev)
    deadline = time.time() + (a.budget or (75 if quick else 1500))
    n = 1500 if quick else 200000
    with common.Pool() as pool:
        def gen():
            # fixed grid, always run: an over-long control line (with / without its terminator)
            # followed by every way the connection can go on or end
            g = 0
            for nbytes in (65535, 65536, 65537, 70000, 200000):
                for term in ("\r\n", ""):
                    for end in ("fin", "rst", "hold", "fin-midline"):
                        for login_first in (False, True):
                            g += 1
                            yield {"mode": "server", "seed": a.seed * 1000 + g, "hostile": ["CWD " + "A" * nbytes + term] + (["PWD\r\n"] if g % 3 == 0 else []), "end": end, "login_first": login_first, "scripts": ["idle" if g % 2 else "stor_retr"]}
            # a peer that floods commands, asks to QUIT and reads nothing, then goes away
            # (or a hostile line behind the flood: the server ends the session while its replies
            # are stuck in a peer that never reads and never closes)
            for nflood in (40, 150):
                for tail in ("\xff\xfe\r\n", "CWD " + "A" * 70000 + "\r\n"):
                    for login_first in (False, True):
                        g += 1
                        yield {"mode": "server", "seed": a.seed * 1000 + g, "hostile": ["NOSUCHVERB " + "x" * 500 + "\r\n"] * nflood + [tail], "end": "stay", "login_first": login_first, "noread": True, "scripts": ["idle"]}
            for nflood in (5, 40):
                for end in ("rst", "fin", "hold"):
                    for login_first in (False, True):
                        g += 1
                        yield {"mode": "server", "seed": a.seed * 1000 + g, "hostile": ["PWD\r\n" * nflood + "QUIT\r\n"], "end": end, "login_first": login_first, "noread": True, "scripts": ["idle"]}
            for i in range(n):
                yield gen_client_case(a.seed * 1_000_000 + i)
                yield gen_client_case(a.seed * 1_000_000 + n + i)
                if i % 2 == 0:
                    yield gen_server_case(a.seed * 1_000_000 + i)

        cases = common.with_samples(gen(), 3)
        for case, res in pool.map(run_case, cases, deadline=deadline, chunksize=4):
            ev.add_run(res)
            for v in res["violations"]:
                rep.add(case, v)
        ev.assumptions = ["the listing-line parsers are pure functions; here they are driven through the fake server's data channel so that the lister loop and the finish() handshake are included", "the fake server always ends what it sends with FIN: 'does not hang' is the bounded-liveness check that every client call returns within 2000 (5000 for the recursive listing) virtual seconds, or the simulation deadlocks"]
        code = rep.finish(minimise=minimise, confirm=confirm)
    ev.write()
    print(f"{PROP}: {ev.evaluations} runs, {len(ev.nontrivial_digests)} distinct non-trivial, {ev.violations} violation classes, exit {code}")
    return code
