"""C11 - the passive data-port pool neither loses nor duplicates ports.

Server restricted to `data_ports`; 1..4 raw sessions issue PASV/EPSV (first, repeated),
transfers, QUIT, vanish (RST/FIN), "send PASV and close at once"; the network model makes
chosen ports fail to bind (EADDRINUSE because a foreign listener holds them, EACCES or
another OSError at chosen attempts); a sweep cuts the session / closes the server at
every event-loop step between the delivery of the PASV line and the 227/229 reply
(zero-latency network, so that a reset lands between two steps of the listener start-up).

Invariant after every network event: for every configured port
    (#copies in the pool) + (#live listeners bound to it) + (#bind attempts in flight) == 1.
At quiescence: pool == configured set, no data listener left, and a behavioural probe
(n sessions get n distinct configured ports, the (n+1)-th gets 421).
"""

from __future__ import annotations

import asyncio
import errno
import gc
import random
import time

from checks import common
from simftp import scenario
from simftp.peers import PeerGone, RawPeer, ReplyTimeout
from simftp.world import aioftp

PROP = "C11"
PORTS = [30001, 30002, 30003, 30004]


def gen_ops(rnd):
    ops = [["login"]]
    for _ in range(rnd.randint(1, 6)):
        x = rnd.random()
        if x < 0.35:
            ops.append(["pasv", rnd.choice(["PASV", "EPSV"])])
        elif x < 0.45:
            # pipelined: the next passive command arrives while the first listener is still being opened
            ops.append(["burst", [rnd.choice(["PASV", "EPSV"]) for _ in range(rnd.randint(2, 3))]])
        elif x < 0.52:
            # USER again on the same control connection (the passive listener, if any, stays the session's)
            ops.append(["relogin"])
        elif x < 0.65:
            ops.append(["xfer"])
        elif x < 0.80:
            ops.append(["sleep", rnd.choice([0.0005, 0.01, 0.2])])
        else:
            ops.append(["cmd", "PWD"])
    e = rnd.random()
    if e < 0.3:
        ops.append(["quit"])
    elif e < 0.5:
        ops.append(["vanish", "rst"])
    elif e < 0.65:
        ops.append(["vanish", "fin"])
    elif e < 0.85:
        ops.append(["pasv_close", rnd.choice(["PASV", "EPSV"]), rnd.choice(["fin", "rst"])])
    else:
        ops.append(["hold"])
    return ops


def gen_case(seed):
    rnd = random.Random(seed * 99991 + 3)
    nports = rnd.choice([0, 1, 1, 2, 2, 3, 4])
    ports = PORTS[:nports]
    case = {"seed": seed, "ports": ports, "sessions": [{"start": rnd.choice([0.0, 0.0, 0.001, 0.05]), "ops": gen_ops(rnd)} for _ in range(rnd.randint(1, 4))]}
    plan = {}
    for p in ports:
        if rnd.random() < 0.45:
            plan[str(p)] = [rnd.choice(["ok", errno.EADDRINUSE, errno.EADDRINUSE, errno.EACCES, errno.EADDRNOTAVAIL]) for _ in range(rnd.randint(1, 4))]
    case["bind_plan"] = plan
    case["foreign"] = [p for p in ports if rnd.random() < 0.2]
    if case["foreign"] and rnd.random() < 0.5:
        case["foreign_release_at"] = rnd.choice([0.01, 0.1, 0.5])
    case["zero_latency"] = rnd.random() < 0.4
    case["final"] = rnd.choice(["probe", "probe", "close"])
    if rnd.random() < 0.3:
        case["cut"] = {"unit": "step", "k": rnd.randrange(30, 600), "how": rnd.choice(["rst", "fin", "server_close"]), "session": 0}
    return case


def run_case(case):
    rng = random.Random(case["seed"] * 7919 + 31)
    net = scenario.random_net(rng, allow_small_pipe=False)
    if case.get("zero_latency"):
        net["latency"] = [0.0, 0.0]
        net["send_delay"] = 0.0
        net["accept_delay"] = [0.0, 0.0]
    if case.get("net"):
        net.update(case["net"])
    ports = list(case["ports"])
    sc = {"seed": case["seed"], "net": net, "fs": {"delay": None}}
    viol = []
    info = {"checks": 0, "inflight_seen": 0}
    world = scenario.setup_world(sc)
    with world:
        scenario.apply_net(world.net, net)
        for port, plan in (case.get("bind_plan") or {}).items():
            world.net.bind_plan[int(port)] = list(plan)
        for p in case.get("foreign") or ():
            world.net.foreign_ports.add(p)
        server = world.make_server([aioftp.User()], data_ports=ports, wait_future_timeout=1.0, idle_timeout=None)
        world.populate({"/f": b"0123456789" * 3})
        netw = world.net
        inflight = {}
        orig_create = netw.create_server

        async def create_server(protocol_factory, host, port, **kw):
            if port in ports:
                inflight[port] = inflight.get(port, 0) + 1
                info["inflight_seen"] += 1
            try:
                return await orig_create(protocol_factory, host, port, **kw)
            finally:
                if port in ports:
                    inflight[port] -= 1

        netw.create_server = create_server

        def pool_ports():
            q = getattr(server, "available_data_ports", None)
            if q is None:
                return None
            try:
                return sorted(p for (_prio, p) in list(q._queue))
            except Exception:
                return None

        def check_invariant(where):
            pool = pool_ports()
            if pool is None:
                return
            info["checks"] += 1
            for p in ports:
                n_pool = pool.count(p)
                n_lst = 1 if p in netw.listeners else 0
                n_fl = inflight.get(p, 0)
                # a bind attempt that already bound its socket is the same entity as the listener
                tot = n_pool + max(n_lst, n_fl)
                if tot == 0:
                    viol.append({"clause": "port-lost", "subject": "during-run", "detail": f"{where}: port {p} is neither in the pool, nor bound, nor being bound (pool={pool}, listeners={sorted(netw.listeners)})"})
                elif tot > 1:
                    viol.append({"clause": "port-duplicated", "subject": "during-run", "detail": f"{where}: port {p} counted {tot} times (pool x{n_pool}, listener x{n_lst}, in flight x{n_fl})"})
            extra = [p for p in pool if p not in ports]
            if extra:
                viol.append({"clause": "port-invented", "subject": "during-run", "detail": f"{where}: pool contains unconfigured ports {extra}"})

        netw.observers.append(lambda seq, kind, conn, side, n: check_invariant(f"after net event {seq} ({kind})"))
        peers = []
        got_ports = []

        async def run_ops(i, spec):
            peer = RawPeer(world, f"s{i}", reply_timeout=100.0)
            peers.append(peer)
            if spec.get("start"):
                await asyncio.sleep(spec["start"])
            try:
                await peer.connect()
                for op in spec["ops"]:
                    if op[0] == "login":
                        await peer.login()
                    elif op[0] == "pasv":
                        code = await peer.passive(op[1])
                        if code in ("227", "229"):
                            got_ports.append((world.loop.steps, i, peer.passive_port))
                            if peer.passive_port not in ports:
                                viol.append({"clause": "port-outside-configured-set", "subject": op[1], "detail": f"{op[1]} answered with port {peer.passive_port}, configured {ports}"})
                        elif code == "421":
                            info["saw_421"] = info.get("saw_421", 0) + 1
                            pool = pool_ports()
                            bindable = [p for p in (pool or []) if p not in netw.foreign_ports and p not in netw.listeners and not netw.bind_plan.get(p)]
                            if pool is not None and bindable and not inflight:
                                # a free, bindable port was in the pool: exhaustion was answered wrongly
                                viol.append({"clause": "421-with-free-port", "subject": op[1], "detail": f"421 although ports {bindable} were free in the pool"})
                    elif op[0] == "relogin":
                        await peer.cmd("USER anonymous")
                        info["relogins"] = info.get("relogins", 0) + 1
                    elif op[0] == "burst":
                        for v in op[1]:
                            peer.note("C", v)
                        peer.writer.write("".join(v + "\r\n" for v in op[1]).encode())
                        info["bursts"] = info.get("bursts", 0) + 1
                        for v in op[1]:
                            code, lines = await peer.reply(100.0)
                            if code in ("227", "229"):
                                got_ports.append((world.loop.steps, i, None))
                            elif code == "421":
                                info["saw_421"] = info.get("saw_421", 0) + 1
                                raise PeerGone()
                        peer.passive_port = None
                    elif op[0] == "xfer":
                        if peer.passive_port is not None:
                            r = await peer.download("RETR /f", passive=None, connect="before", data_timeout=50.0)
                            info["xfers"] = info.get("xfers", 0) + (1 if r["final"] == "226" else 0)
                    elif op[0] == "cmd":
                        await peer.cmd(op[1])
                    elif op[0] == "sleep":
                        await asyncio.sleep(op[1])
                    elif op[0] == "quit":
                        await peer.cmd("QUIT")
                        try:
                            await peer.reply(30.0)
                        except ReplyTimeout:
                            pass
                        peer.close()
                        return
                    elif op[0] == "vanish":
                        peer.vanish(op[1])
                        return
                    elif op[0] == "pasv_close":
                        # the command and the end of the connection leave back to back
                        peer.note("C", op[1])
                        peer.writer.write((op[1] + "\r\n").encode())
                        if op[2] == "fin":
                            peer.writer.close()
                        else:
                            await asyncio.sleep(0)  # let the line leave, then reset
                            peer.writer.transport.abort()
                        info["pasv_close"] = info.get("pasv_close", 0) + 1
                        return
                    elif op[0] == "hold":
                        await asyncio.sleep(1e5)
            except (PeerGone, ReplyTimeout, ConnectionError, OSError):
                return

        async def probe():
            """n sessions obtain n distinct configured ports, the next one gets 421"""
            opened = []
            res = []
            try:
                for j in range(len(ports) + 1):
                    p = RawPeer(world, f"probe{j}", reply_timeout=100.0)
                    opened.append(p)
                    await p.connect()
                    await p.login()
                    code = await p.passive("EPSV" if j % 2 else "PASV")
                    res.append((code, p.passive_port))
            except (PeerGone, ReplyTimeout):
                res.append(("closed", None))
            info["probe"] = res
            okp = [pp for c, pp in res[: len(ports)]]
            last = res[len(ports)][0] if len(res) > len(ports) else None
            if sorted(x for x in okp if x is not None) != sorted(ports) or any(c not in ("227", "229") for c, _ in res[: len(ports)]) or last != "421":
                viol.append({"clause": "pool-not-conserved", "subject": "probe", "detail": f"on the quiescent server {len(ports) + 1} sessions asked for a passive port and got {res}; configured {ports}"})
            for p in opened:
                p.vanish("rst")
            await asyncio.sleep(5.0)

        async def main():
            await server.start("127.0.0.1", 2121)
            check_invariant("at start")
            tasks = [world.spawn(run_ops(i, s), f"s{i}") for i, s in enumerate(case["sessions"])]
            if case.get("foreign_release_at") is not None:
                world.loop.call_later(case["foreign_release_at"], netw.foreign_ports.clear)
            cut = case.get("cut")
            if cut:
                def do_cut():
                    info["cut_fired"] = True
                    info["cut_inflight"] = sum(inflight.values())
                    if cut["how"] == "server_close":
                        info["close_task"] = world.loop.create_task(server.close())
                    else:
                        i = cut["session"]
                        if i < len(peers) and peers[i].writer is not None:
                            peers[i].vanish(cut["how"])
                            tasks[i].cancel()

                if cut["unit"] == "step":
                    world.loop.at_step(cut["k"], do_cut)
                else:
                    netw.at_event(cut["k"], do_cut)
            try:
                await asyncio.wait_for(asyncio.wait(tasks), 200.0)
            except asyncio.TimeoutError:
                pass
            # a cut position beyond the end of the sessions never fires
            world.loop.step_hooks.clear()
            netw.event_hooks.clear()
            closed_by_cut = "close_task" in info
            for t in tasks:
                if not t.done():
                    t.cancel()
            if case["final"] == "close" or closed_by_cut:
                t = info.get("close_task") or world.loop.create_task(server.close())
                await asyncio.wait_for(asyncio.shield(t), 1e4)
                await asyncio.sleep(5.0)
            else:
                for p in peers:
                    p.vanish("rst")
                netw.foreign_ports.clear()
                netw.bind_plan.clear()
                await asyncio.sleep(30.0)
            # ---- quiescence
            netw.foreign_ports.clear()
            netw.bind_plan.clear()
            pool = pool_ports()
            info["pool_end"] = pool
            lst = [p for p in netw.listeners if p != 2121]
            if lst:
                viol.append({"clause": "data-listener-left", "subject": "quiescence", "detail": f"data listeners still bound after all sessions ended: {lst}"})
            if pool is not None and pool != sorted(ports):
                viol.append({"clause": "pool-not-conserved", "subject": "quiescence", "detail": f"pool holds {pool} after all sessions ended, configured {sorted(ports)}"})
            if case["final"] != "close" and not closed_by_cut and "close_task" not in info:
                await probe()
                await common.close_server(server, viol)
            elif "close_task" in info:
                await asyncio.wait_for(asyncio.shield(info["close_task"]), 1e4)
            await asyncio.sleep(1.0)

        world.run(main())
        gc.collect()
        if world.outcome == "deadlock":
            viol.append({"clause": "hang", "subject": "deadlock", "detail": "simulation deadlocked"})
        elif world.outcome not in ("ok", "budget"):
            raise common.HarnessError(f"scenario failed: {world.outcome}: {world.error!r}")
        # duplicates handed out: the same port reported to two sessions whose listeners overlap is
        # covered by the invariant (a listener is unique per port in the network model)
        seen = set()
        out = []
        for v in viol:
            key = (v["clause"], v["subject"])
            if key not in seen:
                seen.add(key)
                out.append(v)
        binds = [b for b in netw.bind_log]
        res = {
            "digest": world.digest([[tuple(x[1:]) for x in p.transcript] for p in peers]),
            "nontrivial": len(got_ports) > 0 or info.get("saw_421", 0) > 0,
            "vtime": world.loop.time() - 1000.0,
            "events": world.net.seq,
            "steps": world.loop.steps,
            "outcome": world.outcome,
            "counters": {
                "invariant_checks": info["checks"],
                "faults.bind_eaddrinuse": sum(1 for b in binds if b[2] == errno.EADDRINUSE),
                "faults.bind_other_oserror": sum(1 for b in binds if b[2] not in ("ok", errno.EADDRINUSE)),
                "faults.cut": int(bool(info.get("cut_fired"))),
                "probe.cut_during_listener_start": int(bool(info.get("cut_inflight"))),
                "probe.exhaustion_421": info.get("saw_421", 0),
                "probe.port_retry_after_eaddrinuse": int(any(b[2] == errno.EADDRINUSE for b in binds) and len(got_ports) > 0),
                "probe.pasv_and_close": info.get("pasv_close", 0),
                "probe.pipelined_passive_commands": info.get("bursts", 0),
                "probe.relogin_with_listener": info.get("relogins", 0),
                "passive_ports_granted": len(got_ports),
            },
            "violations": out,
            "steps_total": world.loop.steps,
        }
        if case.get("want_sample"):
            res["sample"] = {"case": case, "bind_log": binds[:10], "probe": info.get("probe"), "pool_end": info.get("pool_end"), "transcripts": [[list(x) for x in p.transcript][:12] for p in peers[:2]]}
        if case.get("want_window"):
            res["window"] = info.get("window")
    return res


def pilot_window(case):
    """step numbers between 'PASV line delivered to the server' and 'its reply written' for session 0"""
    rng = random.Random(case["seed"] * 7919 + 31)
    # run with taps; re-use run_case machinery by monkeypatching is overkill: do a light dedicated run
    from simftp import core

    net = scenario.random_net(rng, allow_small_pipe=False)
    net["latency"] = [0.0, 0.0]
    net["send_delay"] = 0.0
    net["accept_delay"] = [0.0, 0.0]
    sc = {"seed": case["seed"], "net": net, "fs": {"delay": None}}
    world = scenario.setup_world(sc)
    marks = []
    with world:
        scenario.apply_net(world.net, net)
        for port, plan in (case.get("bind_plan") or {}).items():
            world.net.bind_plan[int(port)] = list(plan)
        server = world.make_server([aioftp.User()], data_ports=list(case["ports"]), wait_future_timeout=1.0)

        def dtap(conn, side, data):
            if side == "s" and conn.port == 2121 and (b"PASV" in data or b"EPSV" in data):
                marks.append(("in", world.loop.steps))

        def wtap(conn, side, data):
            if side == "s" and conn.port == 2121 and data[:3] in (b"227", b"229", b"421"):
                marks.append(("out", world.loop.steps))

        world.net.deliver_taps.append(dtap)
        world.net.write_taps.append(wtap)

        async def main():
            await server.start("127.0.0.1", 2121)
            p = RawPeer(world, "s0", reply_timeout=50.0)
            await p.connect()
            await p.login()
            await p.passive(case.get("verb", "EPSV"))
            p.vanish("rst")
            await asyncio.sleep(1.0)
            await server.close()

        world.run(main())
    ins = [s for k, s in marks if k == "in"]
    outs = [s for k, s in marks if k == "out"]
    if not ins or not outs:
        return None
    return ins[0], outs[0]


def sweep_cases(seed, quick):
    rnd = random.Random(seed)
    out = []
    variants = []
    for ports in ([30001], [30001, 30002]):
        for verb in ("PASV", "EPSV"):
            for plan in ({}, {"30001": [errno.EADDRINUSE]}, {"30001": [errno.EACCES]}):
                if len(ports) == 1 and plan and quick:
                    continue
                variants.append({"ports": ports, "verb": verb, "bind_plan": plan})
                if len(ports) > 1:
                    # alone on the server: it is certainly this session that meets the busy port
                    # and goes round the port loop a second time
                    variants.append({"ports": ports, "verb": verb, "bind_plan": plan, "solo": True})
                    if plan:
                        variants.append({"ports": ports + [30003], "verb": verb, "bind_plan": {"30001": [list(plan.values())[0][0]], "30002": [errno.EADDRINUSE]}, "solo": True})
    for vi, v in enumerate(variants):
        base = {"seed": seed * 100 + vi, "ports": v["ports"], "bind_plan": v["bind_plan"], "verb": v["verb"], "zero_latency": True, "foreign": [], "final": "probe"}
        win = pilot_window(base)
        if win is None:
            continue
        lo, hi = win
        for k in range(lo - 1, hi + 3):
            for how in ("rst", "fin", "server_close"):
                c = dict(base)
                c["sessions"] = [{"start": 0.0, "ops": [["login"], ["pasv", v["verb"]], ["hold"]]}]
                if len(v["ports"]) > 1 and not v.get("solo"):
                    c["sessions"].append({"start": 0.0, "ops": [["login"], ["pasv", "EPSV"], ["xfer"], ["quit"]]})
                c["cut"] = {"unit": "step", "k": k, "how": how, "session": 0}
                if how == "server_close":
                    c["final"] = "close"
                out.append(c)
    return out


def confirm(case, violation):
    r = run_case(case)
    return any(v["clause"] == violation["clause"] and v["subject"] == violation["subject"] for v in r["violations"])


def minimise(case, violation):
    import copy

    def bad(c):
        try:
            r = run_case(c)
        except Exception:
            return False
        return any(v["clause"] == violation["clause"] and v["subject"] == violation["subject"] for v in r["violations"])

    cur = copy.deepcopy(case)
    cur.pop("want_sample", None)
    budget = 100
    changed = True
    while changed and budget > 0:
        changed = False
        for i in range(len(cur["sessions"]) - 1, -1, -1):
            if len(cur["sessions"]) <= 1:
                break
            trial = copy.deepcopy(cur)
            del trial["sessions"][i]
            if trial.get("cut") and trial["cut"].get("session", 0) >= len(trial["sessions"]):
                trial.pop("cut")
            budget -= 1
            if bad(trial):
                cur, changed = trial, True
        for i in range(len(cur["sessions"])):
            j = len(cur["sessions"][i]["ops"]) - 1
            while j >= 1 and budget > 0:
                trial = copy.deepcopy(cur)
                del trial["sessions"][i]["ops"][j]
                budget -= 1
                if bad(trial):
                    cur, changed = trial, True
                j -= 1
        for key, val in (("bind_plan", {}), ("foreign", []), ("cut", None)):
            if key == "cut":
                if "cut" not in cur:
                    continue
                trial = copy.deepcopy(cur)
                trial.pop("cut")
            else:
                if cur.get(key) == val:
                    continue
                trial = copy.deepcopy(cur)
                trial[key] = val
            budget -= 1
            if bad(trial):
                cur, changed = trial, True
    return cur, violation


def selftest_cases(n):
    return [gen_case(20_000 + i) for i in range(n)]


def main(argv=None):
    a = common.tier_and_seed(argv)
    if a.replay:
        import json

        doc = json.load(open(a.replay))
        r = run_case(doc["case"])
        hit = [v for v in r["violations"] if v["clause"] == doc["clause"]]
        if hit:
            print(f"reproduced: {hit[0]}")
            print(f"VIOLATION property={PROP} replay={a.replay}")
            return 1
        print("not reproduced")
        return 0
    quick = a.tier == "quick"
    ev = common.Evidence(PROP, a.tier, a.seed, "fault_enumeration", "(sweep) PASV/EPSV x pool size x bind outcome of the first port, session cut by RST/FIN or Server.close() at every event-loop step between delivery of the PASV line and its reply on a zero-latency network; (random) seeded histories of 1..4 sessions with PASV/EPSV/transfer/QUIT/vanish/'PASV and close at once' x pool sizes 0..4 x bind plans (EADDRINUSE, EACCES, EADDRNOTAVAIL, foreign listeners released later); invariant checked after every network event; non-trivial = at least one passive port granted or exhaustion answered; distinct = distinct run digests Sessions also send pipelined PASV/EPSV bursts.")
    rep = common.Reporter(PROP, ev)
    deadline = time.time() + (a.budget or (60 if quick else 1200))
    with common.Pool() as pool:
        sweep = sweep_cases(a.seed, quick)
        import itertools

        nrand = 5000 if quick else 400000
        cases = common.with_samples(itertools.chain(sweep, (gen_case(a.seed * 1_000_000 + i) for i in range(nrand))), 2)
        nsweep = len(sweep)
        done = 0
        for case, res in pool.map(run_case, cases, deadline=deadline, chunksize=8):
            done += 1
            ev.add_run(res)
            for v in res["violations"]:
                rep.add(case, v)
        ev.extra["sweep"] = {"step_positions": nsweep, "random_histories_planned": nrand, "runs_done": done, "complete": done >= nsweep}
        ev.assumptions = [
            "the pool is read white-box from Server.available_data_ports (a PriorityQueue) for the per-event invariant, and behaviourally (n sessions get n distinct ports, the next gets 421) at quiescence",
            "a port is 'bound' from the bind() inside create_server on, as on the real loop; bind attempts in flight are counted so that the invariant is not evaluated in a transient state",
        ]
        code = rep.finish(minimise=minimise, confirm=confirm)
    ev.write()
    print(f"{PROP}: {ev.evaluations} runs, {len(ev.nontrivial_digests)} distinct non-trivial, {ev.violations} violation classes, exit {code}")
    return code
