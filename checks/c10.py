"""C10 - connection limits are exact and slots are always returned.

Several concurrent raw sessions run seeded histories of connect / USER (same, other,
unknown, over-limit user) / PASS (right, wrong) / QUIT / commands / a custom verb whose
handler raises / stall until idle_timeout / peer vanishing by RST or FIN at a network
event index / Server.close().  Oracles:

 (a) safety during the run, from wire observations: admitted sessions never exceed the
     server limit, sessions attached to a user never exceed that user's limit, a 421 /
     530 "too much connections" is only given when the limit is really reached;
 (b) conservation at quiescence: exactly `limit` fresh connections are greeted 220 and
     the next one 421; per user exactly `max` logins succeed and the next gets 530
     (behavioural probe), plus a white-box cross-check of the counters when present;
 (c) the accounting itself never fails (no ValueError anywhere).
"""

from __future__ import annotations

import asyncio
import gc
import random
import time

from checks import common
from simftp import scenario
from simftp.peers import PeerGone, RawPeer, ReplyTimeout
from simftp.world import aioftp

PROP = "C10"
USERS = [
    {"login": None, "maximum_connections": None},
    {"login": "u1", "password": "pw1", "maximum_connections": 1},
    {"login": "u2", "maximum_connections": 2},
    {"login": "u3", "password": "pw3", "maximum_connections": 2},
]


def gen_session(rnd, nusers):
    ops = []
    n = rnd.randint(1, 7)
    names = ["anonymous", "u1", "u2", "u3", "nobody"]
    for _ in range(n):
        x = rnd.random()
        if x < 0.40:
            ops.append(["user", rnd.choice(names)])
        elif x < 0.60:
            ops.append(["pass", rnd.choice(["pw1", "pw3", "wrong"])])
        elif x < 0.70:
            ops.append(["cmd", rnd.choice(["PWD", "SYST", "NOOP", "EPSV"])])
        elif x < 0.78:
            ops.append(["boom"])
        elif x < 0.90:
            ops.append(["sleep", rnd.choice([0.001, 0.01, 0.1, 1.0])])
        else:
            ops.append(["stall"])
    end = rnd.random()
    if end < 0.08:
        # QUIT (behind a few pipelined commands) and a reset without reading a single reply
        ops.append(["quit_rst", rnd.randint(0, 30), rnd.choice([0.0, 0.0005, 0.01])])
    elif end < 0.35:
        ops.append(["quit"])
    elif end < 0.55:
        ops.append(["vanish", "rst"])
    elif end < 0.75:
        ops.append(["vanish", "fin"])
    elif end < 0.85:
        ops.append(["stall"])
    else:
        ops.append(["hold"])  # stays connected until the end of the run
    return ops


def gen_case(seed, *, nsess=None):
    rnd = random.Random(seed * 31337 + 5)
    n = nsess or rnd.randint(2, 6)
    case = {
        "seed": seed,
        "limit": rnd.choice([None, 1, 2, 3, 3]),
        "user_limits": {"u1": rnd.choice([1, 1, 2]), "u2": rnd.choice([None, 1, 2]), "u3": rnd.choice([1, 2])},
        "idle": rnd.choice([None, 4.0]),
        "sessions": [{"start": rnd.choice([0.0, 0.0, 0.0005, 0.01, 0.3, 2.0]), "ops": gen_session(rnd, 4)} for _ in range(n)],
        "final": rnd.choice(["probe", "probe", "probe", "close"]),
    }
    if rnd.random() < 0.3:
        case["cut"] = {"session": rnd.randrange(n), "k": rnd.randrange(1, 120), "how": rnd.choice(["rst", "fin"])}
    if rnd.random() < 0.3:
        case["manager"] = "slow"
        case["idle"] = None  # (the conservation probe itself takes seconds with a slow manager)
        if rnd.random() < 0.7:
            case["cut"] = {"session": rnd.randrange(n), "k": rnd.randrange(1, 120), "how": rnd.choice(["rst", "fin"])}
    return case


class BoomServer(aioftp.Server):
    def __init__(self, *a, **kw):
        super().__init__(*a, **kw)
        self.commands_mapping["boom"] = self.boom

    async def boom(self, connection, rest):
        raise RuntimeError("handler bug (injected by the harness)")


def run_case(case):
    rng = random.Random(case["seed"] * 7919 + 29)
    net = scenario.random_net(rng, allow_small_pipe=False)
    if any(op[0] == "quit_rst" for s_ in case["sessions"] for op in s_["ops"]) and case["seed"] % 2:
        net["capacity"], net["high_water"] = 7, 8  # the 221 (and what is queued before it) blocks in the write
    if case.get("net"):
        net.update(case["net"])
    limit = case["limit"]
    ul = case["user_limits"]
    idle = case.get("idle")
    users_spec = []
    for u in USERS:
        d = dict(u)
        if d["login"] in ul:
            d["maximum_connections"] = ul[d["login"]]
        users_spec.append(d)
    sc = {"seed": case["seed"], "server": {}, "net": net, "fs": {"delay": None}}
    viol = []
    info = {"counts": {}}
    world = scenario.setup_world(sc)
    with world:
        scenario.apply_net(world.net, net)
        users = scenario.build_users(users_spec)
        from simftp import fs as simfs

        if case.get("manager") == "slow":
            # a user manager whose lookups / logouts suspend (a database): sessions can end while
            # one of its calls is in flight
            from simftp import usermgr

            users = usermgr.build("slow", users, world.rng("usermgr"))

        server = BoomServer(users, path_io_factory=simfs.make_spy(aioftp.MemoryPathIO, world.fsctl), maximum_connections=limit, idle_timeout=idle, wait_future_timeout=1.0)
        world.server = server
        events = []  # (step, kind, conn_id, detail)  kinds: accept, greet220, greet421, user_ok, user_530_limit, user_other, closed
        peers = []
        passwords = {"u1": "pw1", "u3": "pw3"}

        def on_write(conn, side, data):
            if side != "s" or conn.port != 2121:
                return
            events.append((world.loop.steps, "w", conn.id, bytes(data[:80]), world.loop.time()))

        world.net.write_taps.append(on_write)

        def observer(seq, kind, conn, side, n):
            if kind == "accept" and conn is not None and conn.port == 2121:
                events.append((world.loop.steps, "accept", conn.id, None, world.loop.time()))

        world.net.observers.append(observer)

        async def run_ops(i, spec):
            peer = RawPeer(world, f"s{i}", reply_timeout=200.0)
            peers.append(peer)
            if spec.get("start"):
                await asyncio.sleep(spec["start"])
            try:
                code, _ = await peer.connect()
                if code != "220":
                    return
                for op in spec["ops"]:
                    if op[0] == "user":
                        peer.last_user = op[1]
                        await peer.cmd("USER " + op[1])
                    elif op[0] == "pass":
                        await peer.cmd("PASS " + op[1])
                    elif op[0] == "cmd":
                        await peer.cmd(op[1])
                    elif op[0] == "boom":
                        await peer.send("BOOM")
                        try:
                            await peer.reply(50.0)
                        except ReplyTimeout:
                            pass
                    elif op[0] == "sleep":
                        await asyncio.sleep(op[1])
                    elif op[0] == "stall":
                        await asyncio.sleep((idle or 1.0) * 1.5)
                        if idle is not None:
                            try:
                                await peer.reply(1.0)
                            except ReplyTimeout:
                                pass
                    elif op[0] == "quit":
                        await peer.cmd("QUIT")
                        try:
                            await peer.reply(60.0)
                        except ReplyTimeout:
                            pass
                        peer.close()
                        return
                    elif op[0] == "quit_rst":
                        peer.writer.write(b"NOOP\r\n" * op[1] + b"QUIT\r\n")
                        await asyncio.sleep(op[2])
                        peer.vanish("rst")
                        return
                    elif op[0] == "vanish":
                        peer.vanish(op[1])
                        return
                    elif op[0] == "hold":
                        await asyncio.sleep(1e5)
            except PeerGone:
                return
            except ReplyTimeout:
                return
            except (ConnectionError, OSError):
                return

        async def probe():
            """behavioural conservation probe on the quiescent server"""
            world.net.cfg.capacity, world.net.cfg.high_water = 262144, 65536  # the probe's own connections are ordinary ones
            opened = []
            try:
                # (1) server-wide limit
                n_try = (limit + 1) if limit is not None else 4
                greets = []
                for j in range(n_try):
                    p = RawPeer(world, f"probe{j}", reply_timeout=100.0)
                    opened.append(p)
                    try:
                        code, _ = await p.connect()
                    except PeerGone:
                        code = "closed"
                    greets.append(code)
                exp = ["220"] * limit + ["421"] if limit is not None else ["220"] * n_try
                info["probe_greets"] = greets
                if greets != exp:
                    viol.append({"clause": "server-slots-not-conserved", "subject": f"limit={limit}", "detail": f"on the quiescent server {n_try} fresh connections were greeted {greets}, expected {exp}"})
                live = [p for p, g in zip(opened, greets) if g == "220"]
                # (2) per-user limits, as far as the server limit lets us go
                for u in users_spec:
                    name, mx = u["login"], u["maximum_connections"]
                    if name is None or mx is None:
                        continue
                    if len(live) < mx + 1:
                        continue
                    got = []
                    for p in live[: mx + 1]:
                        c, _ = await p.cmd("USER " + name)
                        got.append(c)
                    ok_code = "331" if u.get("password") else "230"
                    expu = [ok_code] * mx + ["530"]
                    if got != expu:
                        viol.append({"clause": "user-slots-not-conserved", "subject": f"{name}:max={mx}", "detail": f"USER {name} on {mx + 1} sessions of the quiescent server answered {got}, expected {expu}"})
                    info.setdefault("probe_users", {})[name] = got
                    for p in live[: mx + 1]:
                        await p.cmd("USER nobody")  # detach again
            except (PeerGone, ReplyTimeout) as e:
                viol.append({"clause": "probe-failed", "subject": type(e).__name__, "detail": f"conservation probe could not complete: {type(e).__name__}"})
            for p in opened:
                p.vanish("rst")
            await asyncio.sleep(5.0)

        async def main():
            await server.start("127.0.0.1", 2121)
            tasks = [world.spawn(run_ops(i, s), f"s{i}") for i, s in enumerate(case["sessions"])]
            cut = case.get("cut")
            if cut:
                def do_cut():
                    i = cut["session"]
                    if i < len(peers) and peers[i].writer is not None:
                        peers[i].vanish(cut["how"])
                        tasks[i].cancel()
                        info["cut_fired"] = True

                world.net.at_event(cut["k"], do_cut)
            # holders are released after everybody else is done
            try:
                await asyncio.wait_for(asyncio.wait(tasks), 300.0)
            except asyncio.TimeoutError:
                pass
            world.loop.step_hooks.clear()
            world.net.event_hooks.clear()
            info["holders"] = sum(1 for t in tasks if not t.done())
            if case["final"] == "close":
                await common.close_server(server, viol)
                await asyncio.sleep(5.0)
                for t in tasks:
                    t.cancel()
            else:
                # end the remaining sessions abruptly, let the server settle, then probe
                for t, p in zip(tasks, peers):
                    if not t.done():
                        t.cancel()
                for p in peers:
                    p.vanish("rst")
                await asyncio.sleep(30.0 + (idle or 0) * 2)
                await probe()
                await common.close_server(server, viol)
            await asyncio.sleep(1.0)

        world.run(main())
        gc.collect()
        if world.outcome == "deadlock":
            viol.append({"clause": "hang", "subject": "deadlock", "detail": "simulation deadlocked"})
        elif common.frozen_violation(world):
            viol.append(common.frozen_violation(world))
        elif world.outcome not in ("ok", "budget"):
            raise common.HarnessError(f"scenario failed: {world.outcome}: {world.error!r}")

        # ---------------- (c) accounting never fails
        for msg, et, evv in world.dispatcher_exceptions():
            if et == "ValueError":
                viol.append({"clause": "accounting-failed", "subject": "dispatcher", "detail": f"{msg}: {evv}"})
        for e in world.loop.exc_log:
            if e["exc_type"] == "ValueError":
                viol.append({"clause": "accounting-failed", "subject": "task", "detail": f"{e['message']}: {e['exception']}"})
            # other un-retrieved task exceptions (e.g. the ConnectionResetError of a command reader
            # that finished just before its session was torn down) are log noise, not accounting

        # ---------------- white-box cross-check of the counters (when the attributes exist)
        try:
            ac = server.available_connections
            if ac.maximum_value is not None and ac.value != ac.maximum_value:
                viol.append({"clause": "server-slots-not-conserved", "subject": "counter", "detail": f"available_connections.value={ac.value} != maximum_value={ac.maximum_value} after all sessions ended"})
            for user, uac in server.user_manager.available_connections.items():
                if uac.maximum_value is not None and uac.value != uac.maximum_value:
                    viol.append({"clause": "user-slots-not-conserved", "subject": f"counter:{user.login}", "detail": f"user {user.login}: value={uac.value} != maximum_value={uac.maximum_value} after all sessions ended"})
        except AttributeError:
            pass

        # ---------------- (a) safety during the run, from the wire
        closes = {}
        for t in world.net.transports:
            if t.side == "s" and t.conn.port == 2121:
                closes[t.conn.id] = t
        # time line ordered by event-loop step: the server's writes / accepts (taps) merged with
        # the step at which each server-side control transport was closed; at equal steps the
        # close comes first (ties resolved in favour of the implementation)
        admitted = {}  # cid -> True while admitted
        attached = {}  # cid -> user key
        info["sessions_closed"] = sum(1 for t_ in closes.values() if t_.closed_at is not None)
        close_at_step = {cid: getattr(t_, "closed_step", None) for cid, t_ in closes.items()}
        merged = []
        for (step, kind, cid, data, vt) in events:
            merged.append((step, 1, kind, cid, data, vt))
        for cid, st in close_at_step.items():
            if st is not None:
                merged.append((st, 0, "closed", cid, None, closes[cid].closed_at))
        merged.sort(key=lambda x: (x[0], x[1]))
        open_ctl = set()
        max_admitted = 0
        peak_user = {}
        names_by_cid = {}
        # USER lines as sent by peers, in order per connection
        sent_users = {}
        for p in peers:
            if p.writer is None:
                continue
            cid = p.writer.transport.conn.id
            sent_users[cid] = [t[2][5:] for t in p.transcript if t[1] == "C" and t[2].upper().startswith("USER ")]
        user_idx = {cid: 0 for cid in sent_users}
        limits_by_name = {u["login"]: u["maximum_connections"] for u in users_spec}
        just_closed = []  # (vtime, user key) of sessions whose control transport was closed: their
        # slots are returned a few loop iterations later (same virtual instant), so a refusal at
        # that very instant is legitimate
        just_closed_ctl = []
        for (step, _o, kind, cid, data, vt) in merged:
            if kind == "accept":
                open_ctl.add(cid)
            elif kind == "closed":
                open_ctl.discard(cid)
                admitted.pop(cid, None)
                just_closed_ctl.append(vt)
                if cid in attached:
                    just_closed.append((vt, attached.pop(cid)))
            elif kind == "w":
                if data.startswith(b"220"):
                    admitted[cid] = True
                    if limit is not None and len(admitted) > limit:
                        viol.append({"clause": "server-limit-exceeded", "subject": f"limit={limit}", "detail": f"{len(admitted)} sessions admitted concurrently (limit {limit})"})
                    max_admitted = max(max_admitted, len(admitted))
                elif data.startswith(b"421 Too many"):
                    others = len(open_ctl - {cid}) + sum(1 for t0 in just_closed_ctl if t0 >= vt - 1e-9)
                    if limit is None or others < limit:
                        viol.append({"clause": "refused-below-server-limit", "subject": f"limit={limit}", "detail": f"421 although only {others} other control connections were open (limit {limit})"})
                elif data[:3] in (b"230", b"331", b"530") and cid in sent_users:
                    txt = data.decode("latin-1")
                    is_user_reply = ("anonymous login" in txt or "login without password" in txt or "password required" in txt or "no such username" in txt or "too much connections" in txt)
                    if not is_user_reply:
                        continue
                    i = user_idx.get(cid, 0)
                    name = sent_users[cid][i] if i < len(sent_users[cid]) else None
                    user_idx[cid] = i + 1
                    attached.pop(cid, None)  # USER always detaches the previous user first
                    if data[:3] in (b"230", b"331"):
                        key = name if name in limits_by_name else None  # anonymous / fallback user
                        attached[cid] = key
                        cnt = sum(1 for v in attached.values() if v == key)
                        mx = limits_by_name.get(key)
                        peak_user[key] = max(peak_user.get(key, 0), cnt)
                        if mx is not None and cnt > mx and case.get("manager") != "slow":
                            # (with a suspending manager a re-login gives its slot back some time
                            # before the wire shows anything: only the quiescent checks apply)
                            viol.append({"clause": "user-limit-exceeded", "subject": f"{key}:max={mx}", "detail": f"{cnt} sessions attached to user {key} concurrently (limit {mx})"})
                    elif "too much connections" in txt:
                        key = name if name in limits_by_name else None
                        cnt = sum(1 for v in attached.values() if v == key) + sum(1 for (t0, k0) in just_closed if k0 == key and t0 >= vt - 1e-9)
                        mx = limits_by_name.get(key)
                        if (mx is None or cnt < mx) and case.get("manager") != "slow":
                            # (with a suspending manager a slot is given back some time after the
                            # wire shows the session gone: only the quiescent checks apply)
                            viol.append({"clause": "refused-below-user-limit", "subject": f"{key}:max={mx}", "detail": f"530 too much connections for {key} although only {cnt} sessions were attached (limit {mx})"})
        info["max_admitted"] = max_admitted
        seen = set()
        out = []
        for v in viol:
            key = (v["clause"], v["subject"])
            if key not in seen:
                seen.add(key)
                out.append(v)
        n421 = sum(1 for e in events if e[1] == "w" and e[3].startswith(b"421"))
        n530 = sum(1 for e in events if e[1] == "w" and e[3].startswith(b"530") and b"too much" in e[3])
        res = {
            "digest": world.digest([[tuple(x[1:]) for x in p.transcript] for p in peers]),
            "nontrivial": len(peers) >= 2,
            "vtime": world.loop.time() - 1000.0,
            "events": world.net.seq,
            "steps": world.loop.steps,
            "outcome": world.outcome,
            "counters": {"probe.refused_421": n421, "probe.refused_530_user_limit": n530, "probe.limit_reached": int(limit is not None and max_admitted >= limit), "faults.cut": int(bool(info.get("cut_fired"))), "faults.handler_raises": sum(1 for s in case["sessions"] for o in s["ops"] if o[0] == "boom"), "faults.vanish": sum(1 for s in case["sessions"] for o in s["ops"] if o[0] == "vanish"), "faults.idle_stall": sum(1 for s in case["sessions"] for o in s["ops"] if o[0] == "stall") if idle else 0, "faults.server_close_with_sessions": int(case["final"] == "close" and info.get("holders", 0) > 0)},
            "violations": out,
        }
        if case.get("want_sample"):
            res["sample"] = {"case": case, "probe_greets": info.get("probe_greets"), "probe_users": info.get("probe_users"), "transcripts": [[list(x) for x in p.transcript][:12] for p in peers[:3]]}
    return res


def confirm(case, violation):
    r = run_case(case)
    return any(v["clause"] == violation["clause"] and v["subject"] == violation["subject"] for v in r["violations"])


def minimise(case, violation):
    """delta debugging over sessions and ops"""

    def bad(c):
        try:
            r = run_case(c)
        except Exception:
            return False
        return any(v["clause"] == violation["clause"] and v["subject"] == violation["subject"] for v in r["violations"])

    import copy

    cur = copy.deepcopy(case)
    cur.pop("want_sample", None)
    budget = 120
    changed = True
    while changed and budget > 0:
        changed = False
        for i in range(len(cur["sessions"]) - 1, -1, -1):
            if len(cur["sessions"]) <= 1:
                break
            trial = copy.deepcopy(cur)
            del trial["sessions"][i]
            if trial.get("cut") and trial["cut"]["session"] >= len(trial["sessions"]):
                trial.pop("cut")
            budget -= 1
            if bad(trial):
                cur = trial
                changed = True
        for i in range(len(cur["sessions"])):
            j = len(cur["sessions"][i]["ops"]) - 1
            while j >= 0 and budget > 0:
                trial = copy.deepcopy(cur)
                del trial["sessions"][i]["ops"][j]
                budget -= 1
                if bad(trial):
                    cur = trial
                    changed = True
                j -= 1
        for key, val in (("cut", None), ("idle", None), ("net", {"seg_mode": "whole", "latency": [0.001, 0.001], "send_delay": 0.0, "accept_delay": [0.0, 0.0]})):
            trial = copy.deepcopy(cur)
            if val is None:
                if key == "cut":
                    if "cut" not in trial:
                        continue
                    trial.pop("cut")
                else:
                    if trial.get(key) is None:
                        continue
                    trial[key] = None
            else:
                if trial.get(key) == val:
                    continue
                trial[key] = val
            budget -= 1
            if bad(trial):
                cur = trial
                changed = True
    return cur, violation


def selftest_cases(n):
    return [gen_case(10_000 + i) for i in range(n)]


CORE = [
    # hand-picked histories that are always run first
    {"limit": 1, "sessions": [{"start": 0, "ops": [["hold"]]}, {"start": 0.5, "ops": [["cmd", "PWD"], ["quit"]]}]},
    {"limit": 2, "sessions": [{"start": 0, "ops": [["user", "u1"], ["vanish", "rst"]]}, {"start": 0.5, "ops": [["user", "u1"], ["pass", "pw1"], ["quit"]]}]},
    {"limit": 2, "sessions": [{"start": 0, "ops": [["user", "u1"], ["pass", "pw1"], ["hold"]]}, {"start": 0.5, "ops": [["user", "u1"], ["pass", "pw1"], ["user", "u2"], ["quit"]]}]},
    {"limit": None, "sessions": [{"start": 0, "ops": [["user", "u2"], ["user", "u2"], ["user", "u3"], ["pass", "wrong"], ["user", "nobody"], ["quit"]]}]},
    {"limit": 1, "sessions": [{"start": 0, "ops": [["user", "u3"], ["boom"]]}, {"start": 1.0, "ops": [["user", "u3"], ["pass", "pw3"], ["quit"]]}]},
    {"limit": 3, "idle": 4.0, "sessions": [{"start": 0, "ops": [["user", "u1"], ["stall"]]}, {"start": 0.1, "ops": [["user", "u2"], ["stall"]]}, {"start": 0.2, "ops": [["user", "u2"], ["vanish", "fin"]]}]},
    {"limit": 2, "final": "close", "sessions": [{"start": 0, "ops": [["user", "u1"], ["pass", "pw1"], ["hold"]]}, {"start": 0, "ops": [["user", "u2"], ["hold"]]}, {"start": 0.3, "ops": [["hold"]]}]},
]


def core_cases(seed):
    out = []
    for i, c in enumerate(CORE):
        d = {"seed": seed * 100 + i, "limit": c.get("limit"), "user_limits": {"u1": 1, "u2": 2, "u3": 2}, "idle": c.get("idle"), "sessions": c["sessions"], "final": c.get("final", "probe")}
        out.append(d)
    return out


def main(argv=None):
    a = common.tier_and_seed(argv)
    if a.replay:
        import json

        doc = json.load(open(a.replay))
        r = run_case(doc["case"])
        hit = [v for v in r["violations"] if v["clause"] == doc["clause"]]
        if hit:
            print(f"reproduced: {hit[0]}")
            print(f"VIOLATION property={PROP} replay={a.replay}")
            return 1
        print("not reproduced")
        return 0
    quick = a.tier == "quick"
    ev = common.Evidence(PROP, a.tier, a.seed, "exploration", "seeded random histories of 2..6 concurrent raw sessions (connect/USER/PASS/QUIT/commands/handler error/idle stall/vanish by RST or FIN, optional cut at a network event index, optional Server.close() with sessions open) x limits {None,1,2,3} x per-user limits; each run ends with a behavioural conservation probe; a case is non-trivial when at least two sessions ran; distinct = distinct run digests")
    rep = common.Reporter(PROP, ev)
    deadline = time.time() + (a.budget or (60 if quick else 1200))
    n = 6000 if quick else 400000
    with common.Pool() as pool:
        import itertools

        ncore = len(core_cases(a.seed))
        cases = common.with_samples(itertools.chain(core_cases(a.seed), (gen_case(a.seed * 1_000_000 + i) for i in range(n))), 3)
        done = 0
        for case, res in pool.map(run_case, cases, deadline=deadline, chunksize=16):
            done += 1
            ev.add_run(res)
            for v in res["violations"]:
                rep.add(case, v)
        ev.extra["planned"] = ncore + n
        ev.assumptions = [
            "admission is observed at the wire (220/421/230/331/530 as written by the server, close of the server-side control transport), ordered by event-loop step; ties are resolved in favour of the implementation",
            "the conservation probe runs on a quiescent server 30+ virtual seconds after the last session ended",
        ]
        code = rep.finish(minimise=minimise, confirm=confirm)
    ev.write()
    print(f"{PROP}: {ev.evaluations} runs, {len(ev.nontrivial_digests)} distinct non-trivial, {ev.violations} violation classes, exit {code}")
    return code
