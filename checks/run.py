#!/venv/bin/python
"""Entry point: run.py <Cxx|selftest> [--tier quick|thorough] [--seed N] [--replay file]

Re-execs itself with PYTHONHASHSEED=0, imports the check module by name (never as
__main__, so it is loaded exactly once) and exits with its code:
0 held, 1 violation, 2 harness error."""
import importlib
import os
import sys
import traceback

VERIF = os.path.dirname(os.path.dirname(os.path.abspath(__file__)))


def main():
    if os.environ.get("PYTHONHASHSEED") != "0":
        env = dict(os.environ)
        env["PYTHONHASHSEED"] = "0"
        os.execve(sys.executable, [sys.executable, os.path.abspath(__file__)] + sys.argv[1:], env)
    sys.unraisablehook = lambda u: None  # coroutines of abandoned simulated worlds are finalised late
    sys.path.insert(0, VERIF)
    sys.path.insert(0, os.environ.get("AIOFTP_SRC", "/repo/src"))
    if len(sys.argv) < 2:
        print(__doc__)
        return 2
    name = sys.argv[1].lower()
    try:
        mod = importlib.import_module(f"checks.{name}")
        from checks import common

        common.install_watchdog()
        try:
            return mod.main(sys.argv[2:])
        finally:
            common.remove_watchdog()  # the interpreter restores SIGALRM's default action while it shuts down
    except SystemExit:
        raise
    except BaseException:
        traceback.print_exc()
        print("HARNESS-ERROR (exit 2): the check itself failed; nothing is claimed", file=sys.stderr)
        return 2


if __name__ == "__main__":
    sys.exit(main())
