"""C18 - the shipped storage backends are interchangeable.

(a) The same seeded FTP history (generator of C05; mutations aimed at the virtual root are
not generated) is executed, with the same seed, against a server on MemoryPathIO, on PathIO
and on AsyncPathIO (the latter two on a fresh scratch directory; run_in_executor is the
simulator's inline executor with a seeded virtual delay).  Per command: same reply class,
same transferred bytes / listed names; after every step the tree snapshots (names, types,
file bytes) are equal across the three - in particular a failed command changed nothing
anywhere.
(b) At the backend API: seeded operation sequences over {exists is_dir is_file mkdir rmdir
unlink list stat open(rb/wb/ab/r+b)+seek/read/write/close rename} on a small path universe
with files, directories, missing parents and paths through files, on PathIO vs AsyncPathIO:
same result-or-failure, same tree.
"""

from __future__ import annotations

import asyncio
import gc
import os
import pathlib
import random
import shutil
import tempfile
import time

from checks import common
from checks import c05
from simftp import conform, scenario
from simftp import model as M
from simftp.peers import RawPeer
from simftp.world import aioftp

PROP = "C18"
BACKENDS = ["memory", "pathio", "asyncpathio"]
SCRATCH_ROOT = "/dev/shm" if os.path.isdir("/dev/shm") else tempfile.gettempdir()


def fs_snapshot(root):
    out = {"/": None}
    for dirpath, dirnames, filenames in os.walk(root):
        rel = "/" + os.path.relpath(dirpath, root).replace(os.sep, "/")
        if rel == "/.":
            rel = "/"
        out[rel] = None
        for f in filenames:
            p = os.path.join(dirpath, f)
            with open(p, "rb") as fh:
                out[(rel.rstrip("/") + "/" + f)] = fh.read()
    return out


def fs_populate(root, tree):
    for k in sorted(tree):
        if k == "/":
            continue
        p = os.path.join(root, k.lstrip("/"))
        if tree[k] is None:
            os.makedirs(p, exist_ok=True)
        else:
            os.makedirs(os.path.dirname(p), exist_ok=True)
            with open(p, "wb") as fh:
                fh.write(tree[k])


def run_history(case, backend):
    """returns list of per-step observations + snapshots"""
    rng = random.Random(case["seed"] * 7919 + 101)
    net = scenario.random_net(rng, allow_small_pipe=False)
    sc = {"seed": case["seed"], "net": net}
    world = scenario.setup_world(sc)
    scratch = None
    obs = []
    with world:
        scenario.apply_net(world.net, net)
        if backend == "memory":
            users = [aioftp.User(), aioftp.User("u1", "pw1", home_path="/d"), aioftp.User("u2")]
            server = aioftp.Server(users, path_io_factory=aioftp.MemoryPathIO, block_size=16, wait_future_timeout=5.0)
            world.server = server
            world.populate({k: v for k, v in c05.TREE.items() if k != "/"})
            snap = lambda: {k: (None if v is None else bytes(v)) for k, v in world.snapshot().items()}
        else:
            scratch = tempfile.mkdtemp(prefix="c18_", dir=SCRATCH_ROOT)
            world.digest_masks = [scratch]
            fs_populate(scratch, c05.TREE)
            users = [aioftp.User(base_path=scratch), aioftp.User("u1", "pw1", base_path=scratch, home_path="/d"), aioftp.User("u2", base_path=scratch)]
            factory = aioftp.PathIO if backend == "pathio" else aioftp.AsyncPathIO
            server = aioftp.Server(users, path_io_factory=factory, block_size=16, wait_future_timeout=5.0)
            world.server = server
            r2 = world.rng("executor")
            world.loop.executor_delay = (lambda: r2.choice([0.0, 0.0001, 0.001])) if backend == "asyncpathio" else None
            snap = lambda: fs_snapshot(scratch)
        sess = M.Session(c05.users(), dict(c05.TREE))
        peer = RawPeer(world, "s0", reply_timeout=200.0)

        def on_step(st, phase, s):
            if phase == "after":
                names = None
                if st.data is not None and st.op[0].upper() in ("LIST", "MLSD"):
                    names = sorted(conform.listing_names(st.op[0].upper(), st.data))
                obs.append({"op": list(st.op[:2]), "codes": list(st.codes), "final": st.final, "closed": st.closed, "data": st.data if names is None else None, "names": names, "snap": snap()})

        async def main():
            await server.start("127.0.0.1", 2121)
            await peer.connect()
            await conform.drive(peer, sess, [tuple(o) for o in case["ops"]], world=None, check_tree=False, on_step=on_step, payload_of=lambda op: (b"UP:" + op[1].encode("utf-8", "replace") + b":") * 3)
            peer.close()
            await asyncio.sleep(1)
            await common.close_server(server)

        try:
            world.run(main())
        finally:
            if scratch:
                shutil.rmtree(scratch, ignore_errors=True)
        if world.outcome not in ("ok", "budget", "deadlock"):
            raise common.HarnessError(f"scenario failed on {backend}: {world.outcome}: {world.error!r}")
        import re

        # files on the real filesystem carry the kernel's timestamps (a clock the simulator does
        # not own): mask the time facts so that the run digest is a function of the seed only
        mask = re.compile(r"(?i)(modify|create)=\d+")
        meta = {"digest": world.digest([(k, mask.sub("T", t)) for (_vt, k, t) in peer.transcript]), "vtime": world.loop.time() - 1000.0, "events": world.net.seq, "steps": world.loop.steps}
    return obs, meta


def run_ftp_case(case):
    results = {}
    metas = {}
    for b in BACKENDS:
        results[b], metas[b] = run_history(case, b)
    viol = []
    ref = results["memory"]
    compared = 0
    for b in ("pathio", "asyncpathio"):
        other = results[b]
        for i, (x, y) in enumerate(zip(ref, other)):
            compared += 1
            v = x["op"][0].upper()
            cx, cy = (x["final"] or "-")[:1], (y["final"] or "-")[:1]
            if cx != cy or x["closed"] != y["closed"]:
                viol.append({"clause": "reply-class-differs", "subject": v, "detail": f"step {i} {x['op']}: memory answered {x['codes']}, {b} answered {y['codes']}", "step": i})
                break
            if x["data"] != y["data"] or x["names"] != y["names"]:
                viol.append({"clause": "transferred-data-differs", "subject": v, "detail": f"step {i} {x['op']}: memory delivered {x['data'] if x['data'] is None else len(x['data'])} bytes / names {x['names']}, {b} {y['data'] if y['data'] is None else len(y['data'])} / {y['names']}", "step": i})
                break
            if x["snap"] != y["snap"]:
                a, c = x["snap"], y["snap"]
                only_m = sorted(set(a) - set(c))[:3]
                only_o = sorted(set(c) - set(a))[:3]
                diff = [k for k in a if k in c and a[k] != c[k]][:3]
                viol.append({"clause": "tree-differs", "subject": v, "detail": f"after step {i} {x['op']} -> {x['final']}: only on memory {only_m}, only on {b} {only_o}, different content {diff}", "step": i})
                break
        # a failed command changes nothing
        for name, res in ((b, other), ("memory", ref)):
            prev = None
            for i, x in enumerate(res):
                if prev is not None and x["final"] and x["final"][0] in "45" and x["snap"] != prev:
                    if x["op"][0].upper() in ("STOR", "APPE") and x["final"] in ("451", "426"):
                        pass  # an interrupted upload may leave a partial / empty file
                    else:
                        viol.append({"clause": "failed-command-changed-tree", "subject": f"{x['op'][0].upper()}:{name}", "detail": f"step {i} {x['op']} -> {x['final']} on {name} changed the tree", "step": i})
                        break
                prev = x["snap"]
    seen = set()
    out = []
    for v in viol:
        key = (v["clause"], v["subject"])
        if key not in seen:
            seen.add(key)
            out.append(v)
    res = {
        "digest": metas["memory"]["digest"] + metas["pathio"]["digest"][:4],
        "nontrivial": compared >= 4,
        "vtime": sum(m["vtime"] for m in metas.values()),
        "events": sum(m["events"] for m in metas.values()),
        "steps": sum(m["steps"] for m in metas.values()),
        "outcome": "ok",
        "counters": {"steps_compared_across_backends": compared, "mode.ftp": 1},
        "violations": out,
    }
    if case.get("want_sample"):
        res["sample"] = {"case": case, "memory_replies": [(x["op"], x["codes"]) for x in ref][:20]}
    return res


# ----------------------------------------------------------------------- (a2) two sessions

TWO_PATHS = ["f", "d/g", "d", "d/e", "z", "new", "d/new", "/f", "missing"]
TWO_LOOK = ["MLST {p}", "CWD {p}", "get:RETR {p}", "get:MLSD {p}", "get:LIST {p}", "RNFR {p}"]
TWO_MUT = ["DELE {p}", "RMD {p}", "ren:{p}", "put:STOR {p}", "put:APPE {p}", "MKD {p}"]


def gen_two_ops(rnd):
    """One sequence of commands issued by two sessions A and B of the same account, one command
    at a time (a command of B may also be handled while an upload of A is in flight).  Half of
    it is triples 'A looks at p, B changes p, A uses p again'."""
    ops = []
    for _ in range(rnd.choice([2, 3, 5, 8])):
        p = rnd.choice(TWO_PATHS)
        if rnd.random() < 0.55:
            a, b = rnd.sample(["A", "B"], 2)
            ops.append([a, rnd.choice(TWO_LOOK).format(p=p)])
            if rnd.random() < 0.3:
                ops.append([a, rnd.choice(TWO_LOOK).format(p=p)])
            ops.append([b, rnd.choice(TWO_MUT).format(p=p)])
            ops.append([a, rnd.choice(TWO_LOOK + TWO_MUT).format(p=p)])
            if rnd.random() < 0.5:
                ops.append([b, "get:MLSD " + rnd.choice(["", "d"])])
        elif rnd.random() < 0.5:
            # an upload (new file, overwrite, append or from a restart offset) during which the
            # other session asks about the file or its directory
            who, other = rnd.sample(["A", "B"], 2)
            o = {"mid": [other, rnd.choice(["MLST {p}", "get:MLSD", "get:LIST {p}", "get:MLSD d", "NOOP"]).format(p=p)], "len": rnd.choice([20, 40, 90])}
            if rnd.random() < 0.5:
                o["rest"] = rnd.choice([1, 5, 17, 40])
            ops.append([who, rnd.choice(["put:STOR {p}", "put:APPE {p}"]).format(p=p), o])
        else:
            ops.append([rnd.choice("AB"), rnd.choice(TWO_LOOK + TWO_MUT + ["PWD", "CDUP"]).format(p=p)])
    return ops


def run_two_history(case, backend):
    from simftp.peers import PeerGone, ReplyTimeout

    rng = random.Random(case["seed"] * 7919 + 103)
    net = scenario.random_net(rng, allow_small_pipe=False)
    sc = {"seed": case["seed"], "net": net}
    world = scenario.setup_world(sc)
    scratch = None
    obs = []
    with world:
        scenario.apply_net(world.net, net)
        if backend == "memory":
            server = aioftp.Server([aioftp.User()], path_io_factory=aioftp.MemoryPathIO, block_size=16, wait_future_timeout=5.0)
            world.server = server
            world.populate({k: v for k, v in c05.TREE.items() if k != "/"})
            snap = lambda: {k: (None if v is None else bytes(v)) for k, v in world.snapshot().items()}
        else:
            scratch = tempfile.mkdtemp(prefix="c18_", dir=SCRATCH_ROOT)
            world.digest_masks = [scratch]
            fs_populate(scratch, c05.TREE)
            factory = aioftp.PathIO if backend == "pathio" else aioftp.AsyncPathIO
            server = aioftp.Server([aioftp.User(base_path=scratch)], path_io_factory=factory, block_size=16, wait_future_timeout=5.0)
            world.server = server
            r2 = world.rng("executor")
            world.loop.executor_delay = (lambda: r2.choice([0.0, 0.0001, 0.001])) if backend == "asyncpathio" else None
            snap = lambda: fs_snapshot(scratch)
        peers = {"A": RawPeer(world, "A", reply_timeout=200.0), "B": RawPeer(world, "B", reply_timeout=200.0)}

        async def one(who, what, o, rec):
            peer = peers[who]
            kind, _, line = what.partition(":") if what.split(":")[0] in ("get", "put", "ren") else ("cmd", "", what)
            if kind == "cmd":
                code, _lines = await peer.cmd(line)
                rec["codes"].append(code)
            elif kind == "ren":
                code, _lines = await peer.cmd("RNFR " + line)
                rec["codes"].append(code)
                if code[0] == "3":
                    code, _lines = await peer.cmd("RNTO " + line + ".moved")
                    rec["codes"].append(code)
            elif kind == "get":
                r = await peer.download(line.strip(), passive="EPSV", connect="before")
                rec["codes"] += [r["pre"], r["mark"], r["final"]]
                verb = line.split()[0]
                if r["final"] and r["final"][0] == "2":
                    if verb in ("LIST", "MLSD"):
                        rec["names"] = sorted(conform.listing_names(verb, r["data"]))
                    else:
                        rec["data"] = r["data"]
            else:
                pay = (b"%s:%s:" % (who.encode(), line.encode())) * 8
                pay = pay[: o.get("len", 30)]
                rec["codes"].append(await peer.passive("EPSV"))
                if peer.passive_port is None:
                    return
                if o.get("rest") is not None:
                    rec["codes"].append((await peer.cmd(f"REST {o['rest']}"))[0])
                await peer.data_connect()
                code, _lines = await peer.cmd(line)
                rec["codes"].append(code)
                if code[0] != "1":
                    peer.data_close()
                    return
                half = len(pay) // 2
                await peer.send_all(pay[:half], [7, 16])
                if o.get("mid"):
                    await asyncio.sleep(0.5)  # the server has stored what was sent so far
                    mrec = {"codes": []}
                    await one(o["mid"][0], o["mid"][1], {}, mrec)
                    rec["mid_codes"] = [c[:1] if c else c for c in mrec["codes"]]
                await peer.send_all(pay[half:], [5, 16])
                peer.data_close()
                code, _lines = await peer.reply()
                rec["codes"].append(code)

        async def main():
            await server.start("127.0.0.1", 2121)
            for p in peers.values():
                await p.connect()
                await p.cmd("USER anonymous")
            for i, op in enumerate(case["ops"]):
                who, what = op[0], op[1]
                o = op[2] if len(op) > 2 else {}
                rec = {"op": [who, what], "codes": [], "data": None, "names": None}
                try:
                    await one(who, what, o, rec)
                except (PeerGone, ReplyTimeout, OSError) as e:
                    rec["error"] = type(e).__name__
                await asyncio.sleep(0.2)
                rec["snap"] = snap()
                obs.append(rec)
                if rec.get("error"):
                    break
            for p in peers.values():
                p.close()
            await asyncio.sleep(1)
            await common.close_server(server)

        try:
            world.run(main())
        finally:
            if scratch:
                shutil.rmtree(scratch, ignore_errors=True)
        if world.outcome not in ("ok", "budget", "deadlock"):
            raise common.HarnessError(f"scenario failed on {backend}: {world.outcome}: {world.error!r}")
        import re

        mask = re.compile(r"(?i)(modify|create)=\d+")
        tr = sorted((vt, w, k, mask.sub("T", t)) for w, p in peers.items() for (vt, k, t) in p.transcript)
        meta = {"digest": world.digest([(w, k, t) for (_vt, w, k, t) in tr]), "vtime": world.loop.time() - 1000.0, "events": world.net.seq, "steps": world.loop.steps}
    return obs, meta


def run_two_case(case):
    results, metas = {}, {}
    for b in BACKENDS:
        results[b], metas[b] = run_two_history(case, b)
    viol = []
    ref = results["memory"]
    compared = 0
    cls = lambda codes: [c[:1] if c else c for c in codes]
    for b in ("pathio", "asyncpathio"):
        other = results[b]
        if len(other) != len(ref):
            viol.append({"clause": "reply-class-differs", "subject": "two-sessions:ended", "detail": f"memory got through {len(ref)} steps, {b} through {len(other)}", "step": min(len(ref), len(other)) - 1})
        for i, (x, y) in enumerate(zip(ref, other)):
            compared += 1
            v = "two-sessions:" + x["op"][1].split(":")[-1].split()[0].upper() if x["op"][1].split(":")[0] not in ("ren",) else "two-sessions:RENAME"
            if cls(x["codes"]) != cls(y["codes"]) or x.get("error") != y.get("error") or x.get("mid_codes") != y.get("mid_codes"):
                viol.append({"clause": "reply-class-differs", "subject": v, "detail": f"step {i} {x['op']} (after {[o[:2] for o in case['ops'][max(0, i - 3):i]]}): memory answered {x['codes']} {x.get('mid_codes') or ''} {x.get('error') or ''}, {b} answered {y['codes']} {y.get('mid_codes') or ''} {y.get('error') or ''}", "step": i})
                break
            if x["data"] != y["data"] or x["names"] != y["names"]:
                viol.append({"clause": "transferred-data-differs", "subject": v, "detail": f"step {i} {x['op']}: memory delivered {x['data'] if x['data'] is None else len(x['data'])} bytes / names {x['names']}, {b} {y['data'] if y['data'] is None else len(y['data'])} / {y['names']}", "step": i})
                break
            if x["snap"] != y["snap"]:
                a, c = x["snap"], y["snap"]
                only_m = sorted(set(a) - set(c))[:3]
                only_o = sorted(set(c) - set(a))[:3]
                diff = [k for k in a if k in c and a[k] != c[k]][:3]
                viol.append({"clause": "tree-differs", "subject": v, "detail": f"after step {i} {x['op']} -> {x['codes']} (after {[o[:2] for o in case['ops'][max(0, i - 3):i]]}): only on memory {only_m}, only on {b} {only_o}, different content {diff}", "step": i})
                break
    seen = set()
    out = []
    for v in viol:
        key = (v["clause"], v["subject"])
        if key not in seen:
            seen.add(key)
            out.append(v)
    res = {
        "digest": metas["memory"]["digest"] + metas["pathio"]["digest"][:4],
        "nontrivial": compared >= 4,
        "vtime": sum(m["vtime"] for m in metas.values()),
        "events": sum(m["events"] for m in metas.values()),
        "steps": sum(m["steps"] for m in metas.values()),
        "outcome": "ok",
        "counters": {"steps_compared_across_backends": compared, "mode.two_sessions": 1, "probe.command_during_upload_of_other_session": sum(1 for x in ref if x.get("mid_codes"))},
        "violations": out,
    }
    if case.get("want_sample"):
        res["sample"] = {"case": case, "memory_replies": [(x["op"], x["codes"]) for x in ref][:20]}
    return res


# ----------------------------------------------------------------------- (b) API level

UNIVERSE = ["f", "d", "d/g", "d/sub", "missing", "missing/x", "f/x", "d/sub/deep", "new"]


def gen_api_ops(rnd):
    ops = []
    for _ in range(rnd.choice([3, 6, 10, 16])):
        k = rnd.choice(["exists", "is_dir", "is_file", "mkdir", "rmdir", "unlink", "list", "stat", "open", "rename", "open", "mkdir"])
        p = rnd.choice(UNIVERSE)
        if k == "mkdir":
            ops.append([k, p, rnd.random() < 0.5, rnd.random() < 0.5])
        elif k == "rename":
            ops.append([k, p, rnd.choice(UNIVERSE)])
        elif k == "open":
            mode = rnd.choice(["rb", "wb", "ab", "r+b"])
            acts = []
            for _ in range(rnd.randint(0, 3)):
                a = rnd.choice(["seek", "read", "write"])
                acts.append([a, rnd.choice([0, 1, 3, 100])] if a != "write" else [a, rnd.choice(["", "xy", "0123456789"])])
            ops.append([k, p, mode, acts])
        else:
            ops.append([k, p])
    return ops


API_TREE = {"/": None, "/f": b"0123456789", "/d": None, "/d/g": b"gg", "/d/sub": None}


async def apply_api(pio, root, ops):
    out = []
    for op in ops:
        k = op[0]
        path = pathlib.Path(root) / op[1]
        try:
            if k in ("exists", "is_dir", "is_file"):
                r = await getattr(pio, k)(path)
            elif k == "mkdir":
                r = await pio.mkdir(path, parents=op[2], exist_ok=op[3])
                r = None
            elif k in ("rmdir", "unlink"):
                await getattr(pio, k)(path)
                r = None
            elif k == "list":
                r = sorted(str(pathlib.Path(p).relative_to(root)) for p in await pio.list(path))
            elif k == "stat":
                st = await pio.stat(path)
                import stat as _s

                r = ("dir" if _s.S_ISDIR(st.st_mode) else "file", st.st_size if not _s.S_ISDIR(st.st_mode) else None)
            elif k == "rename":
                await pio.rename(path, pathlib.Path(root) / op[2])
                r = None
            elif k == "open":
                res = []
                async with pio.open(path, mode=op[2]) as f:
                    for a in op[3]:
                        try:
                            if a[0] == "seek":
                                await f.seek(a[1])
                                res.append("seek")
                            elif a[0] == "read":
                                res.append(bytes(await f.read(a[1])))
                            else:
                                await f.write(a[1].encode())
                                res.append("write")
                        except aioftp.PathIOError as e:
                            res.append("fail:" + type(e.reason[1]).__name__)
                r = res
            out.append(("ok", r))
        except aioftp.PathIOError as e:
            out.append(("fail", None))
        out.append(("tree", fs_snapshot(root)))
    return out


def run_api_case(case):
    rng = random.Random(case["seed"] * 7919 + 103)
    sc = {"seed": case["seed"], "net": {}}
    world = scenario.setup_world(sc)
    res = {}
    with world:
        r2 = world.rng("executor")
        world.loop.executor_delay = lambda: r2.choice([0.0, 0.0001, 0.001])
        roots = {}
        try:
            for name, cls in (("pathio", aioftp.PathIO), ("asyncpathio", aioftp.AsyncPathIO)):
                roots[name] = tempfile.mkdtemp(prefix="c18api_", dir=SCRATCH_ROOT)
                fs_populate(roots[name], API_TREE)

            async def main():
                for name, cls in (("pathio", aioftp.PathIO), ("asyncpathio", aioftp.AsyncPathIO)):
                    res[name] = await apply_api(cls(), roots[name], case["ops"])

            world.run(main())
        finally:
            for r in roots.values():
                shutil.rmtree(r, ignore_errors=True)
        if world.outcome != "ok":
            raise common.HarnessError(f"api scenario failed: {world.outcome}: {world.error!r}")
    viol = []
    a, b = res["pathio"], res["asyncpathio"]
    for i, (x, y) in enumerate(zip(a, b)):
        if x != y:
            opi = i // 2
            viol.append({"clause": "filesystem-backends-disagree", "subject": case["ops"][opi][0], "detail": f"op {opi} {case['ops'][opi]}: PathIO {str(x)[:150]}, AsyncPathIO {str(y)[:150]}"})
            break
    return {
        "digest": world.digest(repr(case["ops"])),
        "nontrivial": True,
        "vtime": world.loop.time() - 1000.0,
        "events": 0,
        "steps": world.loop.steps,
        "outcome": "ok",
        "counters": {"api_ops_compared": len(case["ops"]), "mode.api": 1},
        "violations": viol,
    }


def run_case(case):
    if case.get("mode") == "two":
        return run_two_case(case)
    return run_api_case(case) if case.get("mode") == "api" else run_ftp_case(case)


def confirm(case, violation):
    r = run_case(case)
    return any(v["clause"] == violation["clause"] and v["subject"] == violation["subject"] for v in r["violations"])


def minimise(case, violation):
    import copy

    def bad(c):
        try:
            r = run_case(c)
        except Exception:
            return False
        return any(v["clause"] == violation["clause"] and v["subject"] == violation["subject"] for v in r["violations"])

    cur = copy.deepcopy(case)
    cur.pop("want_sample", None)
    step = violation.get("step")
    if step is not None and step + 1 < len(cur["ops"]):
        trial = copy.deepcopy(cur)
        trial["ops"] = trial["ops"][: step + 1]
        if bad(trial):
            cur = trial
    i = len(cur["ops"]) - 2
    budget = 60
    while i >= 0 and budget > 0:
        trial = copy.deepcopy(cur)
        del trial["ops"][i]
        budget -= 1
        if bad(trial):
            cur = trial
        i -= 1
    return cur, violation


def gen_case(seed):
    rnd = random.Random(seed * 3 + 1)
    return {"seed": seed, "ops": c05.gen_history(rnd)}


def selftest_cases(n):
    return [gen_case(160_000 + i) for i in range(n // 2)] + [{"mode": "api", "seed": 161_000 + i, "ops": gen_api_ops(random.Random(161_000 + i))} for i in range(n - n // 2)] + [{"mode": "two", "seed": 162_000 + i, "ops": gen_two_ops(random.Random(162_000 + i))} for i in range(n // 3)]


def main(argv=None):
    a = common.tier_and_seed(argv)
    if a.replay:
        import json

        doc = json.load(open(a.replay))
        r = run_case(doc["case"])
        hit = [v for v in r["violations"] if v["clause"] == doc["clause"]]
        if hit:
            print(f"reproduced: {hit[0]}")
            print(f"VIOLATION property={PROP} replay={a.replay}")
            return 1
        print("not reproduced")
        return 0
    quick = a.tier == "quick"
    ev = common.Evidence(PROP, a.tier, a.seed, "exploration", "differential: (ftp) the C05 history generator (all verbs, restart offsets, renames onto / into / through files and directories, transfers to new and existing files; no mutation of the virtual root) replayed with the same seed on MemoryPathIO, PathIO and AsyncPathIO, comparing reply class, transferred bytes / listed names and the tree snapshot after every command; (two) sequences of commands issued alternately by two sessions of one account - 'A looks at p, B changes p, A uses p again' triples, and a command of one session handled while an upload of the other (new / overwrite / append / from a restart offset) is in flight - compared the same way; (api) seeded backend-API operation sequences on PathIO vs AsyncPathIO comparing result-or-failure and tree after every operation; non-trivial = at least four steps compared; distinct = distinct run digests")
    rep = common.Reporter(PROP, ev)
    deadline = time.time() + (a.budget or (75 if quick else 1500))
    n = 1500 if quick else 200000
    with common.Pool() as pool:
        def gen():
            for i, ops in enumerate(c05.CORE):
                yield {"seed": a.seed * 100 + i, "ops": ops}
            for i in range(n):
                yield gen_case(a.seed * 1_000_000 + i)
                yield {"mode": "api", "seed": a.seed * 1_000_000 + i, "ops": gen_api_ops(random.Random(a.seed * 1_000_000 + i))}
                yield {"mode": "two", "seed": a.seed * 1_000_000 + i, "ops": gen_two_ops(random.Random(a.seed * 1_000_000 + i + 5))}

        cases = common.with_samples(gen(), 1)
        for case, res in pool.map(run_case, cases, deadline=deadline, chunksize=4):
            ev.add_run(res)
            for v in res["violations"]:
                rep.add(case, v)
        ev.extra["components"] = {"real": ["aioftp server + all three shipped backends", "pathlib on a real scratch directory under " + SCRATCH_ROOT + " (the kernel filesystem is not simulated; single-threaded sequential use makes it deterministic)"], "stub": ["network -> SimNet", "clocks -> virtual", "run_in_executor -> inline call + seeded virtual delay (AsyncPathIO's logic runs, its threads do not)"]}
        ev.assumptions = ["directory order, directory sizes, timestamps and unix modes are not compared", "an upload interrupted by a backend error may leave a partial file: that is not counted as 'a failed command changed the tree'"]
        code = rep.finish(minimise=minimise, confirm=confirm)
    ev.write()
    print(f"{PROP}: {ev.evaluations} runs, {len(ev.nontrivial_digests)} distinct non-trivial, {ev.violations} violation classes, exit {code}")
    return code
