"""Shared runner plumbing: process pool, watchdog, evidence, replay files, known findings.

Exit codes: 0 held (possibly with KNOWN-FINDING lines), 1 violation, 2 harness error.
"""

from __future__ import annotations

import concurrent.futures as cf
import faulthandler
import hashlib
import json
import multiprocessing as mp
import os
import signal
import sys
import time
import traceback

VERIF = os.path.dirname(os.path.dirname(os.path.abspath(__file__)))
if VERIF not in sys.path:
    sys.path.insert(0, VERIF)
AIOFTP_SRC = os.environ.get("AIOFTP_SRC", "/repo/src")  # scratch worktrees are tested by pointing this elsewhere
if AIOFTP_SRC not in sys.path:
    sys.path.insert(0, AIOFTP_SRC)

NPROC = int(os.environ.get("VERIF_NPROC", "16"))
CASE_WALL_LIMIT = int(os.environ.get("VERIF_CASE_WALL", "120"))


def ensure_hashseed():
    """Re-exec with PYTHONHASHSEED=0 so that str-keyed set/dict order is fixed."""
    if os.environ.get("PYTHONHASHSEED") is None:
        env = dict(os.environ)
        env["PYTHONHASHSEED"] = "0"
        os.execve(sys.executable, [sys.executable] + sys.argv, env)


class HarnessError(Exception):
    pass


def remove_watchdog():
    signal.setitimer(signal.ITIMER_REAL, 0.0)
    signal.signal(signal.SIGALRM, signal.SIG_IGN)


class _Timeout(KeyboardInterrupt):
    """wall limit of one case; a KeyboardInterrupt subclass so that it is not swallowed as the
    exception of whatever simulated task happens to be running"""


_T0 = [float("inf")]
TICK = 2.0


def install_watchdog():
    """Main process of a check (confirmation, minimisation and --replay run here, outside the
    pool): the spin watchdog only, no per-case wall limit."""
    signal.signal(signal.SIGALRM, _alarm)
    signal.setitimer(signal.ITIMER_REAL, TICK, TICK)


def _alarm(signum, frame):
    """Interval timer, every 5 wall-clock seconds while a case runs: the wall limit of the case,
    and the spin watchdog of the simulated loop."""
    if time.time() - _T0[0] > CASE_WALL_LIMIT:
        raise _Timeout()
    from simftp import core

    core.spin_tick()


def _quiet_unraisable(unraisable):
    # coroutines of an abandoned simulated world are finalised after their loop is closed
    pass


def _worker_init():
    sys.unraisablehook = _quiet_unraisable
    signal.signal(signal.SIGALRM, _alarm)
    try:
        faulthandler.enable()
    except Exception:
        pass


def _call(args):
    fn, case = args
    _T0[0] = time.time()
    signal.setitimer(signal.ITIMER_REAL, TICK, TICK)
    try:
        res = fn(case)
        if isinstance(res, dict) and res.get("outcome") == "budget" and res.get("violations") and not res.get("budget_is_verdict") and res.get("events", 0) > 50000:
            # the simulation's step cap ended a run with heavy simulated network traffic (the cost
            # of the network model, e.g. a long line in 1-byte segments): whatever the oracles say
            # about the unfinished run is not a verdict.  (A run that exhausts the cap with hardly
            # any traffic is tasks rescheduling themselves for ever - its violations stand.)
            res["counters"] = dict(res.get("counters") or {}, **{"inconclusive.violations_dropped_on_step_budget": len(res["violations"])})
            res["violations"] = []
        return ("ok", case, res)
    except _Timeout:
        return ("timeout", case, None)
    except BaseException as e:  # noqa
        return ("exc", case, "".join(traceback.format_exception(type(e), e, e.__traceback__)))
    finally:
        signal.setitimer(signal.ITIMER_REAL, 0.0)
        _T0[0] = float("inf")


def spin_site(world):
    """For a world whose run ended with outcome 'spin': (function, 'file:line') of the innermost
    frame inside aioftp, or None when the spinning code is the harness' own."""
    src = os.path.realpath(os.environ.get("AIOFTP_SRC", "/repo/src"))
    hit = None
    for fn, ln, name in getattr(world, "spin_frames", ()):
        if os.path.realpath(fn).startswith(src + os.sep):
            # the outermost aioftp frame (the task's own coroutine) names the finding: where
            # exactly inside the spin the watchdog interrupted it differs from run to run
            hit = hit or (name, f"{os.path.relpath(os.path.realpath(fn), src)}:{ln}")
    return hit


def frozen_violation(world, subject="server"):
    """violation dict for a run that ended with outcome 'spin' inside aioftp code (a callback that
    never returned to the loop: busy loop or a blocking wait - a real server would be frozen for
    all its sessions); None when the outcome is something else or the spinning code is the harness"""
    if getattr(world, "outcome", None) != "spin":
        return None
    site = spin_site(world)
    if site is None:
        return None
    return {"clause": "event-loop-frozen", "subject": f"{subject}:{site[0]}", "detail": f"a single callback never returned to the event loop (stuck in {site[0]} at {site[1]}): the whole server is frozen"}


class Pool:
    def __init__(self, nproc=None):
        self.nproc = nproc or NPROC
        self.ex = None

    def __enter__(self):
        if self.nproc > 1:
            self.ex = cf.ProcessPoolExecutor(self.nproc, mp_context=mp.get_context("fork"), initializer=_worker_init)
        else:
            _worker_init()
        return self

    def __exit__(self, *a):
        if self.ex is not None:
            self.ex.shutdown(wait=False, cancel_futures=True)

    def map(self, fn, cases, chunksize=None, deadline=None, batch=4096):
        """Yield (case, result) for the cases (any iterable; consumed lazily in batches so
        that a thorough tier can describe millions of cases without materialising them).
        Stops at the deadline.  Harness problems raise HarnessError."""
        it = iter(cases)
        while True:
            chunk = []
            for c in it:
                chunk.append(c)
                if len(chunk) >= batch:
                    break
            if not chunk:
                return
            if deadline is not None and time.time() > deadline:
                return
            if self.ex is None:
                for c in chunk:
                    if deadline is not None and time.time() > deadline:
                        return
                    st, case, res = _call((fn, c))
                    if st != "ok":
                        raise HarnessError(f"{st} in case {case!r}\n{res}")
                    yield case, res
                continue
            cs = chunksize
            if cs is None:
                cs = max(1, min(64, len(chunk) // (self.nproc * 8) or 1))
            try:
                for st, case, res in self.ex.map(_call, [(fn, c) for c in chunk], chunksize=cs):
                    if st != "ok":
                        raise HarnessError(f"{st} in case {case!r}\n{res}")
                    yield case, res
                    if deadline is not None and time.time() > deadline:
                        return
            except cf.process.BrokenProcessPool as e:
                raise HarnessError(f"worker died: {e}") from None


# ----------------------------------------------------------------------- findings

KNOWN_PATH = os.path.join(VERIF, "known_findings.json")


def load_known():
    try:
        with open(KNOWN_PATH) as f:
            return json.load(f)
    except FileNotFoundError:
        return []


def match_known(prop, clause, subject, known=None):
    """Return the open known-finding entry that covers exactly this violation class."""
    for e in known if known is not None else load_known():
        if e.get("status") != "open" or e.get("property") != prop:
            continue
        if e.get("clause") != clause:
            continue
        subs = e.get("subjects")
        if subs is None or subject in subs:
            return e
    return None


# ----------------------------------------------------------------------- evidence


class Evidence:
    def __init__(self, prop, tier, seed, level, rule):
        self.prop = prop
        self.tier = tier
        self.seed = seed
        self.level = level
        self.rule = rule
        self.t0 = time.time()
        self.evaluations = 0
        self.digests = set()
        self.nontrivial_digests = set()
        self.samples = []
        self.max_samples = 3
        self.counters = {}  # name -> int (faults fired, probes, ...)
        self.groups = {}  # group name -> {key: n}
        self.virtual_seconds = 0.0
        self.events = 0
        self.steps = 0
        self.extra = {}
        self.assumptions = []
        self.violations = 0
        self.known_seen = []
        self.budget_exhausted = 0

    def add_run(self, res):
        """res: dict with digest, nontrivial(bool), vtime, events, steps, counters{}, groups{}, sample?"""
        self.evaluations += 1
        d = res.get("digest")
        if d is not None:
            self.digests.add(d)
            if res.get("nontrivial", True):
                self.nontrivial_digests.add(d)
        self.virtual_seconds += res.get("vtime", 0.0)
        self.events += res.get("events", 0)
        self.steps += res.get("steps", 0)
        for k, v in (res.get("counters") or {}).items():
            self.counters[k] = self.counters.get(k, 0) + v
        for g, kv in (res.get("groups") or {}).items():
            gg = self.groups.setdefault(g, {})
            for k, v in kv.items():
                gg[k] = gg.get(k, 0) + v
        if res.get("outcome") == "budget":
            self.budget_exhausted += 1
        s = res.get("sample")
        if s is not None and len(self.samples) < self.max_samples:
            self.samples.append(s)

    def count(self, name, n=1):
        self.counters[name] = self.counters.get(name, 0) + n

    def write(self, components=None):
        wall = time.time() - self.t0
        cov = {
            "evaluations": self.evaluations,
            "distinct_nontrivial": len(self.nontrivial_digests),
            "rule": self.rule,
            "samples": self.samples or [{"note": "no sample recorded"}],
            "distinct_run_digests": len(self.digests),
            "runs_per_hour": int(self.evaluations / wall * 3600) if wall > 0 else 0,
            "virtual_seconds": round(self.virtual_seconds, 3),
            "net_events": self.events,
            "loop_steps": self.steps,
            "counters": dict(sorted(self.counters.items())),
            "groups": {g: dict(sorted(kv.items())) for g, kv in sorted(self.groups.items())},
            "probes_never_hit": sorted(k for k, v in self.counters.items() if k.startswith("probe.") and v == 0),
            "budget_exhausted_runs": self.budget_exhausted,
            "known_findings_seen": self.known_seen,
            "components": components
            or {
                "real": ["aioftp.server", "aioftp.client", "aioftp.common", "aioftp.pathio", "aioftp.errors (from /repo/src, unmodified)", "asyncio.streams/tasks/futures/locks/queues, BaseEventLoop scheduling", "aioftp.MemoryPathIO wrapped by a spy subclass"],
                "stub": ["selector/sockets/kernel TCP -> simftp.core.SimNet", "monotonic and wall clock -> virtual", "run_in_executor -> inline call + virtual delay"],
            },
        }
        cov.update(self.extra)
        doc = {
            "property_id": self.prop,
            "tier": self.tier,
            "seed": self.seed,
            "level": self.level,
            "coverage": cov,
            "assumptions": self.assumptions,
            "wall_s": round(wall, 2),
            "violations": self.violations,
        }
        evdir = os.environ.get("VERIF_EVIDENCE_DIR") or os.path.join(VERIF, "evidence")  # the override is only for seed tests
        os.makedirs(evdir, exist_ok=True)
        path = os.path.join(evdir, f"{self.prop}.json")
        tmp = path + ".tmp"
        with open(tmp, "w") as f:
            json.dump(doc, f, indent=1, default=_jsonable)
        os.replace(tmp, path)
        return path


def _jsonable(o):
    if isinstance(o, bytes):
        return o.decode("latin-1")
    if isinstance(o, (set, frozenset)):
        return sorted(o)
    return repr(o)


# ----------------------------------------------------------------------- replay files


def write_replay(prop, clause, case, violation, digest=None):
    os.makedirs(os.path.join(VERIF, "replays"), exist_ok=True)
    body = {
        "property": prop,
        "clause": clause,
        "case": case,
        "violation": violation,
        "digest": digest,
        "aioftp_rev": _repo_rev(),
    }
    tag = hashlib.sha256(json.dumps(case, sort_keys=True, default=_jsonable).encode()).hexdigest()[:10]
    path = os.path.join(VERIF, "replays", f"{prop}-{clause}-{tag}.json")
    with open(path, "w") as f:
        json.dump(body, f, indent=1, default=_jsonable)
    return path


def _repo_rev():
    try:
        import subprocess

        return subprocess.run(["git", "-C", "/repo", "rev-parse", "--short", "HEAD"], capture_output=True, text=True, timeout=10).stdout.strip()
    except Exception:
        return None


# ----------------------------------------------------------------------- reporting


class Reporter:
    """Collects violations, separates known findings, decides the exit code."""

    def __init__(self, prop, ev: Evidence):
        self.prop = prop
        self.ev = ev
        self.known = load_known()
        self.new = {}  # (clause, subject) -> (case, violation)
        self.known_hit = {}  # (clause) -> entry
        import glob

        for old in glob.glob(os.path.join(VERIF, "replays", f"{prop}-*.json")):
            try:
                os.remove(old)
            except OSError:
                pass

    def add(self, case, violation):
        clause = violation["clause"]
        subject = violation.get("subject", "")
        e = match_known(self.prop, clause, subject, self.known)
        if e is not None:
            self.known_hit.setdefault(e["id"], (e, case, violation))
            return
        key = (clause, subject)
        # keep the smallest case per class
        old = self.new.get(key)
        if old is None or _size(case) < _size(old[0]):
            self.new[key] = (case, violation)

    def finish(self, minimise=None, confirm=None):
        """Print lines, write replays, return exit code."""
        for eid, (e, case, violation) in sorted(self.known_hit.items()):
            print(f"KNOWN-FINDING: property={self.prop} {e['what']}")
            self.ev.known_seen.append(eid)
        code = 0
        confirmed = False
        for (clause, subject), (case, violation) in sorted(self.new.items()):
            if confirm is not None:
                ok = confirm(case, violation)
                if not ok:
                    print(f"HARNESS-ERROR: violation {clause}/{subject} did not reproduce on re-execution; not reported", file=sys.stderr)
                    code = max(code, 2)
                    continue
            if minimise is not None:
                try:
                    case, violation = minimise(case, violation)
                except Exception as ex:  # keep the unminimised case
                    print(f"note: minimiser failed: {ex!r}", file=sys.stderr)
            path = write_replay(self.prop, clause, case, violation)
            print(f"violation: {clause} / {subject}: {violation.get('detail', '')}"[:600])
            print(f"VIOLATION property={self.prop} replay={path}")
            self.ev.violations += 1
            confirmed = True
        if confirmed:
            return 1  # a confirmed violation outranks a non-reproducible one
        return code


async def close_server(server, viol=None, subject="final-close"):
    """The scenario's own final Server.close().  A close() that never completes is reported when
    the property at hand is about shutdown (viol given); otherwise it is none of this check's
    business - and never a harness error."""
    import asyncio

    try:
        await asyncio.wait_for(server.close(), 1e4)
        return True
    except asyncio.TimeoutError:
        if viol is not None:
            viol.append({"clause": "server-close-hangs", "subject": subject, "detail": "Server.close() did not complete within 10000 virtual seconds"})
        return False


def _size(case):
    return len(json.dumps(case, default=_jsonable))


def with_samples(cases, k=2):
    """lazily mark the first k cases so that their runs return a written-out sample"""
    for i, c in enumerate(cases):
        if i < k:
            c["want_sample"] = True
        yield c


def tier_and_seed(argv=None):
    import argparse

    ap = argparse.ArgumentParser()
    ap.add_argument("--tier", default=os.environ.get("VERIF_TIER", "quick"), choices=["quick", "thorough"])
    ap.add_argument("--seed", type=int, default=int(os.environ.get("VERIF_SEED", "0")))
    ap.add_argument("--replay", default=None)
    ap.add_argument("--budget", type=float, default=None, help="wall seconds for the exploration part")
    a = ap.parse_args(argv)
    return a
