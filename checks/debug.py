"""debug helper: python checks/debug.py <replay.json|case-json> [--net] [--fs]"""
import json, sys, os, logging
sys.path.insert(0, os.path.dirname(os.path.dirname(os.path.abspath(__file__))))
sys.path.insert(0, os.environ.get("AIOFTP_SRC", "/repo/src"))
import importlib

def main():
    doc = json.load(open(sys.argv[1])) if os.path.exists(sys.argv[1]) else json.loads(sys.argv[1])
    prop = doc.get("property", "C12").lower()
    case = doc.get("case", doc)
    mod = importlib.import_module(f"checks.{prop}")
    from simftp import scenario
    sc = mod.build(case)
    print("CASE", json.dumps(case))
    print("NET", sc["net"])
    import simftp.world as W
    orig = W.World.__init__
    def init(self, *a, **k):
        k["log_level"] = logging.DEBUG
        orig(self, *a, **k)
    W.World.__init__ = init
    obs = scenario.run_scenario(sc)
    w = obs.world
    print("OUTCOME", obs.outcome, obs.error, "faults", obs.faults_fired)
    for l, s in obs.sessions.items():
        print("SESSION", l, s.ended)
        for t in (s.peer.transcript if s.peer else []):
            print("   ", t)
    if "--net" in sys.argv:
        for r in w.net.log: print("NET", r)
    if "--fs" in sys.argv:
        for r in w.fsctl.calls: print("FS", r)
    if "--log" in sys.argv:
        for r in w.log_records():
            print("LOG", r.name, r.levelname, r.getMessage(), r.exc_info[1].__repr__() if r.exc_info else "")
    print("EXC", w.loop.exc_log)
    r = mod.run_case(case)
    print("VIOLATIONS", json.dumps(r["violations"], indent=1))
main()
