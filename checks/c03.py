"""C03 - nothing is served before a completed login; re-USER drops the old login.

Raw-peer histories over the full verb set against several user tables.  G-core: every
verb x login state {none, USER pending (331), logged, logged then re-USER pending, wrong
PASS} with arguments that would succeed when logged; G-random: seeded histories that
interleave USER/PASS (known, unknown, password-less, password-protected, right and wrong
passwords) with every other verb.  Oracle: the reference model's login state; while it says
"not logged", every command is refused (503, or 530 for USER/PASS failures, 502 for unknown
verbs), the spying backend records no call, no passive listener is opened and no data
connection is accepted for the session.
"""

from __future__ import annotations

import asyncio
import gc
import random
import time

from checks import common
from simftp import conform, scenario
from simftp import model as M
from simftp.peers import PeerGone, RawPeer, ReplyTimeout

PROP = "C03"
TREE = {"/": None, "/f": b"file-content-0123456789", "/d": None, "/d/g": b"gggg", "/d/e": None}
TABLES = {
    "anon": [("anon", None, None, "/")],
    "mixed": [("anon", None, None, "/"), ("u1", "u1", None, "/"), ("u2", "u2", "pw2", "/d")],
    "noanon": [("u1", "u1", None, "/"), ("u2", "u2", "pw2", "/d")],
    "twopw": [("anon", None, None, "/"), ("u2", "u2", "pw2", "/d"), ("u3", "u3", "pw3", "/")],
    # u4's password is the empty string: it *has* a password (USER -> 331, only 'PASS' with an empty argument logs in)
    "emptypw": [("anon", None, None, "/"), ("u4", "u4", "", "/"), ("u2", "u2", "pw2", "/d")],
}
MANAGERS = ("memory", "slow", "digest")
VERB_ARGS = [("PWD", ""), ("CWD", "d"), ("CDUP", ""), ("MKD", "newdir"), ("RMD", "d/e"), ("DELE", "f"), ("RNFR", "f"), ("RNTO", "f2"), ("MLST", "f"), ("MLSD", ""), ("LIST", ""), ("RETR", "f"), ("STOR", "up"), ("APPE", "f"), ("TYPE", "I"), ("PBSZ", "0"), ("PROT", "P"), ("PASV", ""), ("EPSV", ""), ("ABOR", ""), ("REST", "3"), ("SYST", ""), ("NOOP", ""), ("SITE", "x")]


def model_users(table):
    return [M.UserSpec(login if tag != "anon" else None, pw, home=home) for (tag, login, pw, home) in TABLES[table]]


def spec_users(table, occupied=()):
    # accounts named in `occupied` have maximum_connections=1 and another session holds that slot
    return [{"login": (login if tag != "anon" else None), "password": pw, "home_path": home, "maximum_connections": 1 if login in occupied else None} for (tag, login, pw, home) in TABLES[table]]


def core_cases(seed):
    out = []
    prefixes = {
        "none": [],
        "pending": [["USER", "u2"]],
        "wrongpass": [["USER", "u2"], ["PASS", "nope"]],
        "logged-then-pending": [["USER", "u1"], ["PASV", ""], ["USER", "u2"]],
        "logged-then-unknown": [["USER", "u1"], ["EPSV", ""], ["USER", "ghost"]],
        "logged": [["USER", "u2"], ["PASS", "pw2"]],
        "pass-first": [["PASS", "pw2"]],
        "relogin-same": [["USER", "u2"], ["PASS", "pw2"], ["USER", "u2"]],
    }
    i = 0
    for table in ("mixed", "noanon", "anon"):
        for pname, pre in prefixes.items():
            for (v, a) in VERB_ARGS:
                ops = [list(x) for x in pre] + [[v, a, {"connect": "before"}] if v in M.TRANSFER else [v, a]] + [["PWD", ""]]
                if v == "RNTO":
                    ops = [list(x) for x in pre] + [["RNFR", "f"], ["RNTO", a], ["PWD", ""]]
                for mgr in MANAGERS:
                    out.append({"seed": seed * 10000 + i, "table": table, "ops": ops, "core": f"{table}/{pname}/{v}", "manager": mgr})
                    i += 1
    empties = {
        "pending-emptypw": [["USER", "u4"]],
        "wrongpass-emptypw": [["USER", "u4"], ["PASS", "x"]],
        "logged-emptypw": [["USER", "u4"], ["PASS", ""]],
        "logged-then-pending-emptypw": [["USER", "anonymous"], ["USER", "u4"]],
    }
    for pname, pre in empties.items():
        for (v, a) in VERB_ARGS:
            ops = [list(x) for x in pre] + [[v, a, {"connect": "before"}] if v in M.TRANSFER else [v, a]] + [["PWD", ""]]
            if v == "RNTO":
                ops = [list(x) for x in pre] + [["RNFR", "f"], ["RNTO", a], ["PWD", ""]]
            for mgr in MANAGERS:
                out.append({"seed": seed * 10000 + i, "table": "emptypw", "ops": ops, "core": f"emptypw/{pname}/{v}", "manager": mgr})
                i += 1
    return out


def gen_history(rnd, table):
    names = ["anonymous", "u1", "u2", "u3", "u4", "ghost", ""]
    ops = []
    n = rnd.choice([3, 6, 10, 16, 25])
    while len(ops) < n:
        x = rnd.random()
        if x < 0.25:
            ops.append(["USER", rnd.choice(names)])
        elif x < 0.40:
            ops.append(["PASS", rnd.choice(["pw2", "pw2", "bad", "", "pw1", "pw3"])])
        else:
            v, a = rnd.choice(VERB_ARGS)
            if v in M.TRANSFER:
                ops.append([v, a, {"connect": rnd.choice(["before", "after", "never"])}])
            else:
                ops.append([v, a])
    return ops


def run_pending_case(case):
    """A transfer is accepted (1xx) while its data connection is not made yet; the session then
    sends USER for another account (331, no PASS) and only afterwards connects the data
    channel.  Whatever is delivered must be what the *original* login was entitled to; it must
    never be the other account's data."""
    rng = random.Random(case["seed"] * 7919 + 49)
    net = scenario.random_net(rng, allow_small_pipe=False)
    users = [{"login": None, "base_path": "/anon"}, {"login": "alice", "password": "secret", "base_path": "/alice"}]
    sc = {"seed": case["seed"], "server": {"block_size": 16, "wait_future_timeout": 20.0, "users": users}, "net": net, "fs": {"delay": case.get("fs_delay"), "tree": {"/anon": None, "/anon/pub.txt": "PUBLIC-DATA", "/anon/d": None, "/alice": None, "/alice/pub.txt": "ALICE-PRIVATE", "/alice/diary": "ALICE-DIARY", "/alice/d": None, "/alice/d/hidden": "x"}}}
    viol = []
    info = {}
    world = scenario.setup_world(sc)
    with world:
        server = scenario.finish_setup(world, sc)
        peer = RawPeer(world, "s0", reply_timeout=100.0)
        verb = case["verb"]

        async def main():
            await server.start("127.0.0.1", 2121)
            await peer.connect()
            await peer.cmd("USER anonymous")
            await peer.passive(case.get("passive", "EPSV"))
            line = {"RETR": "RETR pub.txt", "LIST": "LIST", "MLSD": "MLSD", "LISTD": "LIST d", "STOR": "STOR pub.txt"}[verb]
            code, _ = await peer.cmd(line)
            info["mark"] = code
            c2, _ = await peer.cmd("USER alice")
            info["user2"] = c2
            if case.get("then_pass"):
                await peer.cmd("PASS wrong")
            await asyncio.sleep(case.get("delay", 0.01))
            dr, dw = await peer.data_connect()
            if verb == "STOR":
                dw.write(b"OVERWRITTEN-BY-ANON")
                dw.close()
                data = b""
            else:
                peer.data = (dr, dw)
                data, how = await peer.recv_all(timeout=60.0)
            peer.data_close()
            info["data"] = data
            try:
                while True:
                    await peer.reply(30.0)
            except Exception:
                pass
            snap = world.snapshot()
            if b"ALICE" in data or b"diary" in data or b"hidden" in data:
                viol.append({"clause": "other-accounts-data-served", "subject": verb, "detail": f"anonymous issued {line!r}, then USER alice (no password) before connecting the data channel: the data channel delivered {data[:80]!r}"})
            if snap.get("/alice/pub.txt") != b"ALICE-PRIVATE" or set(k for k in snap if k.startswith("/alice")) != {"/alice", "/alice/pub.txt", "/alice/diary", "/alice/d", "/alice/d/hidden"}:
                viol.append({"clause": "other-accounts-tree-changed", "subject": verb, "detail": "a transfer started by anonymous changed alice's tree after USER alice without a password"})
            peer.close()
            await asyncio.sleep(1)
            await common.close_server(server)

        world.run(main())
        if world.outcome not in ("ok", "budget", "deadlock"):
            raise common.HarnessError(f"scenario failed: {world.outcome}: {world.error!r}")
        res = {
            "digest": world.digest([tuple(x[1:]) for x in peer.transcript]),
            "nontrivial": info.get("mark", "")[:1] == "1" and info.get("user2") == "331",
            "vtime": world.loop.time() - 1000.0,
            "events": world.net.seq,
            "steps": world.loop.steps,
            "outcome": world.outcome,
            "counters": {"probe.user_switch_while_transfer_pending": int(info.get("mark", "")[:1] == "1" and info.get("user2") == "331")},
            "groups": {"table": {"pending": 1}},
            "violations": viol,
        }
        if case.get("want_sample"):
            res["sample"] = {"case": case, "transcript": [list(x) for x in peer.transcript][:30]}
    return res


def gen_burst(rnd, table):
    logins = [login for (tag, login, pw, home) in TABLES[table] if tag != "anon"] + ["anonymous", "ghost"]
    pws = [pw for (tag, login, pw, home) in TABLES[table] if pw is not None] + ["bad"]
    pre = rnd.choice([[], [], [["USER", rnd.choice(logins)]], [["USER", "u2"], ["PASS", "pw2"]]])
    burst = []
    for _ in range(rnd.randint(2, 6)):
        x = rnd.random()
        if x < 0.5:
            burst.append(["USER", rnd.choice(logins)])
        elif x < 0.8:
            burst.append(["PASS", rnd.choice(pws)])
        else:
            burst.append(rnd.choice([["PWD", ""], ["NOOP", ""], ["MKD", "bd"], ["EPSV", ""]]))
    return pre, burst


def run_burst_case(case):
    """Login commands arriving in one segment while the user manager suspends (a database
    lookup): their handlers overlap.  Whatever the interleaving, once everything has been
    answered the session may be authorised as a password-protected account only if that
    account's password was supplied after a USER naming it, and only as an account some USER
    line named."""
    rng = random.Random(case["seed"] * 7919 + 53)
    net = scenario.random_net(rng, allow_small_pipe=False)
    table = case["table"]
    sc = {"seed": case["seed"], "server": {"block_size": 16, "wait_future_timeout": 5.0, "users": spec_users(table), "user_manager": case.get("manager", "slow"), "user_manager_delays": case.get("manager_delays")}, "net": net, "fs": {"delay": None}}
    viol = []
    info = {}
    world = scenario.setup_world(sc)
    with world:
        server = scenario.finish_setup(world, sc)
        world.populate({k: v for k, v in TREE.items() if k != "/"})
        peer = RawPeer(world, "s0", reply_timeout=100.0)
        pwof = {login: pw for (tag, login, pw, home) in TABLES[table] if tag != "anon"}
        has_anon = any(tag == "anon" for (tag, *_r) in TABLES[table])

        def resolves(name):
            if name in pwof:
                return name
            return None if not has_anon else "<anon>"

        async def main():
            await server.start("127.0.0.1", 2121)
            await peer.connect()
            for v, a in case["pre"]:
                await peer.cmd(f"{v} {a}".strip())
            pending_xfer = False
            if case.get("failing_transfer"):
                # an upload onto a directory, accepted (150) and waiting for its data connection:
                # it will fail in the backend (451) while the burst below is being handled
                code = await peer.passive("EPSV")
                if code == "229":
                    c150, _ = await peer.cmd("STOR /d")
                    pending_xfer = c150[:1] == "1"
            lines = [f"{v} {a}".strip() for v, a in case["burst"]]
            for l in lines:
                peer.note("C", l)
            peer.writer.write("".join(l + "\r\n" for l in lines).encode())
            if pending_xfer:
                await asyncio.sleep(case.get("connect_after", 0.0))
                try:
                    dr, dw = await peer.data_connect()
                    dw.close()
                except OSError:
                    pass
                info["failing_transfer"] = True
            replies = []
            try:
                for _ in range(len(lines) + (1 if pending_xfer else 0)):
                    replies.append((await peer.reply(60.0))[0])
            except Exception:
                pass
            info["replies"] = replies
            await asyncio.sleep(5.0)
            conns = list(server.connections.values())
            who = None
            logged = False
            if conns:
                c = conns[0]
                logged = c.future.logged.done()
                if c.future.user.done():
                    who = c.user.login if c.user.login is not None else "<anon>"
            try:
                code, _ = await peer.cmd("PWD")
            except Exception:
                code = None
            info["final"] = (who, logged, code)
            seq = [list(x) for x in case["pre"]] + [list(x) for x in case["burst"]]
            if code == "257" or logged:
                subj = who or "nobody"
                named = [i for i, (v, a) in enumerate(seq) if v == "USER" and resolves(a) == who]
                if who is None or not named:
                    viol.append({"clause": "authorised-as-a-user-never-named", "subject": subj, "detail": f"after {seq} the session is served (PWD {code}) as {who!r}, which no USER line named"})
                elif who in pwof and pwof[who] is not None:
                    ok = any(v == "PASS" and a == pwof[who] and any(j < i for j in named) for i, (v, a) in enumerate(seq))
                    if not ok:
                        viol.append({"clause": "authorised-without-its-password", "subject": "pipelined-login", "detail": f"after {case['pre']} then, in one segment, {case['burst']} (replies {replies}) the session is served (PWD {code}) as {who!r} although {who!r}'s password was never supplied"})
            peer.close()
            await asyncio.sleep(1)
            await common.close_server(server)

        world.run(main())
        gc.collect()
        if world.outcome not in ("ok", "budget", "deadlock"):
            raise common.HarnessError(f"scenario failed: {world.outcome}: {world.error!r}")
        st = getattr(server.user_manager, "sim_stats", {"calls": 0, "suspended": 0})
        res = {
            "digest": world.digest([tuple(x[1:]) for x in peer.transcript]),
            "nontrivial": st["suspended"] > 0 and len(info.get("replies", [])) >= 2,
            "vtime": world.loop.time() - 1000.0,
            "events": world.net.seq,
            "steps": world.loop.steps,
            "outcome": world.outcome,
            "counters": {"probe.pipelined_login_burst": 1, "probe.user_manager_suspended": st["suspended"], "probe.burst_left_session_authorised": int(bool(info.get("final", (None, False, None))[1])), "probe.transfer_failed_during_burst": int(bool(info.get("failing_transfer")))},
            "groups": {"table": {table + "/burst": 1}},
            "violations": viol,
        }
        if case.get("want_sample"):
            res["sample"] = {"case": case, "final": info.get("final"), "transcript": [list(x) for x in peer.transcript][:30]}
    return res


def run_twin_case(case):
    """Two sessions send the same command line in the same event-loop step (zero-latency
    network): A is logged in, B is not (nothing sent, USER pending, or a refused PASS).  Whatever
    A is entitled to, B's line is refused and the backend is not touched on B's behalf - the
    check of one session's login state must not read another session's."""
    sc = {"seed": case["seed"], "server": {"block_size": 16, "wait_future_timeout": 5.0, "users": spec_users("mixed"), "user_manager": case.get("manager")}, "net": {"latency": [0.0, 0.0], "send_delay": 0.0, "accept_delay": [0.0, 0.0], "seg_mode": "whole"}, "fs": {"delay": None}}
    viol = []
    info = {"pairs": 0}
    world = scenario.setup_world(sc)
    with world:
        server = scenario.finish_setup(world, sc)
        world.populate({k: v for k, v in TREE.items() if k != "/"})
        a = RawPeer(world, "A", reply_timeout=100.0)
        b = RawPeer(world, "B", reply_timeout=100.0)

        async def main():
            await server.start("127.0.0.1", 2121)
            await a.connect()
            await b.connect()
            await a.cmd("USER anonymous")
            for line in case["b_pre"]:
                await b.cmd(line)
            for (v, arg) in case["verbs"]:
                line = (f"{v} {arg}".strip() + "\r\n").encode()
                before = world.fsctl.per_label.get("B", 0)
                first, second = (b, a) if case["b_first"] else (a, b)
                first.note("C", line.decode().strip())
                first.writer.write(line)
                for _ in range(case["stagger"]):
                    await asyncio.sleep(0)
                second.note("C", line.decode().strip())
                second.writer.write(line)
                try:
                    ra = (await a.reply(50.0))[0]
                    while ra[0] == "1":
                        ra = (await a.reply(50.0))[0]
                    rb = (await b.reply(50.0))[0]
                except (ReplyTimeout, PeerGone) as e:
                    viol.append({"clause": "no-reply", "subject": "twin:" + v, "detail": f"{v!r} sent by a logged-in and a not-logged-in session in the same step: {type(e).__name__}"})
                    break
                info["pairs"] += 1
                touched = world.fsctl.per_label.get("B", 0) - before
                if rb[0] in "123" and v not in ("USER", "PASS", "QUIT", "SYST", "REST"):
                    viol.append({"clause": "served-before-login", "subject": "twin:" + v, "detail": f"session B ({case['b_pre'] or 'nothing sent'}) and the logged-in session A sent {line!r} in the same step ({'B' if case['b_first'] else 'A'} first, {case['stagger']} steps apart): B was answered {rb} (A {ra})"})
                elif touched:
                    viol.append({"clause": "backend-touched-before-login", "subject": "twin:" + v, "detail": f"session B ({case['b_pre'] or 'nothing sent'}) next to the logged-in session A, {line!r}: {touched} backend calls on B's behalf (reply {rb})"})
            a.close()
            b.close()
            await asyncio.sleep(1)
            await common.close_server(server)

        world.run(main())
        gc.collect()
        if world.outcome == "deadlock":
            viol.append({"clause": "hang", "subject": "deadlock", "detail": "simulation deadlocked"})
        elif world.outcome not in ("ok", "budget"):
            raise common.HarnessError(f"scenario failed: {world.outcome}: {world.error!r}")
        seen = set()
        out = []
        for v in viol:
            key = (v["clause"], v["subject"])
            if key not in seen:
                seen.add(key)
                out.append(v)
        res = {"digest": world.digest([tuple(x[1:]) for x in a.transcript] + [tuple(x[1:]) for x in b.transcript]), "nontrivial": info["pairs"] > 0, "vtime": world.loop.time() - 1000.0, "events": world.net.seq, "steps": world.loop.steps, "outcome": world.outcome, "counters": {"probe.same_line_from_a_logged_in_and_a_not_logged_in_session_in_one_step": info["pairs"]}, "violations": out}
        if case.get("want_sample"):
            res["sample"] = {"case": case}
    return res


def gen_twin_cases(seed):
    out = []
    i = 0
    plain = [(v, a) for (v, a) in VERB_ARGS if v not in M.TRANSFER and v not in ("PASV", "EPSV", "ABOR")]
    for b_pre in ([], ["USER u2"], ["USER u2", "PASS nope"]):
        for b_first in (True, False):
            for stagger in (0, 1, 2, 3):
                for mgr in ("memory", "slow"):
                    out.append({"kind": "twin", "seed": seed * 10000 + 5000 + i, "b_pre": b_pre, "b_first": b_first, "stagger": stagger, "verbs": plain, "manager": mgr})
                    i += 1
    return out


def run_case(case):
    if case.get("kind") == "twin":
        return run_twin_case(case)
    if case.get("kind") == "pending":
        return run_pending_case(case)
    if case.get("kind") == "burst":
        return run_burst_case(case)
    rng = random.Random(case["seed"] * 7919 + 47)
    net = scenario.random_net(rng, allow_small_pipe=False)
    if case.get("net"):
        net.update(case["net"])
    sc = {"seed": case["seed"], "server": {"block_size": 16, "wait_future_timeout": 5.0, "users": spec_users(case["table"], case.get("occupied") or ()), "user_manager": case.get("manager")}, "net": net, "fs": {"delay": None}}
    viol = []
    info = {"unauth_cmds": 0}
    world = scenario.setup_world(sc)
    with world:
        server = scenario.finish_setup(world, sc)
        world.populate({k: v for k, v in TREE.items() if k != "/"})
        sess = M.Session(model_users(case["table"]), dict(TREE))
        peer = RawPeer(world, "s0", reply_timeout=100.0)
        mark = {}

        def on_step(st, phase, s):
            if phase == "before":
                mark["logged"] = s.logged
                mark["fs"] = world.fsctl.n
                mark["listeners"] = len(world.net.listeners)
                mark["binds"] = len(world.net.bind_log) + len(world.net.listener_log)
                mark["dconn"] = sum(1 for t in world.net.transports if t.side == "s" and t.conn.port != 2121)
            else:
                if not mark["logged"]:
                    v = st.op[0].upper()
                    info["unauth_cmds"] += 1
                    if world.fsctl.n != mark["fs"]:
                        viol.append({"clause": "backend-touched-before-login", "subject": v, "detail": f"{st.op[:2]} sent while not logged in: backend calls {[c[2] for c in world.fsctl.calls[mark['fs']:]][:6]} (reply {st.final})"})
                    if len(world.net.bind_log) + len(world.net.listener_log) != mark["binds"] and len(world.net.listeners) > mark["listeners"]:
                        viol.append({"clause": "listener-opened-before-login", "subject": v, "detail": f"{st.op[:2]} sent while not logged in opened a passive listener"})
                    if st.final is not None and st.final[0] in "123" and v not in ("USER", "PASS", "QUIT", "SYST", "REST"):
                        viol.append({"clause": "served-before-login", "subject": v, "detail": f"{st.op[:2]} answered {st.final} while the session was not logged in"})

        async def main():
            await server.start("127.0.0.1", 2121)
            holders = []
            pwof = {login: pw for (tag, login, pw, home) in TABLES[case["table"]]}
            for name in case.get("occupied") or ():
                # another session is logged in as this account and keeps its only slot
                h = RawPeer(world, "holder-" + name, reply_timeout=100.0)
                holders.append(h)
                await h.connect()
                await h.cmd("USER " + name)
                if pwof.get(name) is not None:
                    await h.cmd(("PASS " + pwof[name]).strip())
            ops = []
            for o in case["ops"]:
                o = tuple(o)
                if o[0] == "USER" and o[1] in (case.get("occupied") or ()):
                    o = (o[0], o[1], {"limit_reached": True})
                ops.append(o)
            await peer.connect()
            steps = await conform.drive(peer, sess, ops, world=world, on_step=on_step)
            for h in holders:
                h.close()
            info["steps"] = steps
            peer.close()
            await asyncio.sleep(1)
            await common.close_server(server)

        world.run(main())
        gc.collect()
        if world.outcome not in ("ok", "budget", "deadlock"):
            raise common.HarnessError(f"scenario failed: {world.outcome}: {world.error!r}")
        n = 0
        for i, st in enumerate(info.get("steps", [])):
            if st.final is not None:
                n += 1
            for kind, text in st.problems:
                if kind == "not-run":
                    continue
                viol.append({"clause": kind, "subject": st.op[0].upper(), "detail": f"step {i}: {text}", "step": i})
        seen = set()
        out = []
        for v in viol:
            key = (v["clause"], v["subject"])
            if key not in seen:
                seen.add(key)
                out.append(v)
        res = {
            "digest": world.digest([tuple(x[1:]) for x in peer.transcript]),
            "nontrivial": info["unauth_cmds"] > 0,
            "vtime": world.loop.time() - 1000.0,
            "events": world.net.seq,
            "steps": world.loop.steps,
            "outcome": world.outcome,
            "counters": {"commands_checked": n, "commands_sent_while_not_logged_in": info["unauth_cmds"], "probe.user_manager_suspended": getattr(server.user_manager, "sim_stats", {}).get("suspended", 0)},
            "groups": {"table": {case["table"] + "/" + (case.get("manager") or "memory"): 1}},
            "violations": out,
        }
        if case.get("want_sample"):
            res["sample"] = {"case": case, "transcript": [list(x) for x in peer.transcript][:30]}
    return res


def confirm(case, violation):
    r = run_case(case)
    return any(v["clause"] == violation["clause"] and v["subject"] == violation["subject"] for v in r["violations"])


def minimise(case, violation):
    import copy

    def bad(c):
        try:
            r = run_case(c)
        except Exception:
            return False
        return any(v["clause"] == violation["clause"] and v["subject"] == violation["subject"] for v in r["violations"])

    cur = copy.deepcopy(case)
    cur.pop("want_sample", None)
    if cur.get("kind") == "pending":
        return cur, violation
    if cur.get("kind") == "burst":
        for key in ("pre", "burst"):
            i = len(cur[key]) - 1
            while i >= 0:
                trial = copy.deepcopy(cur)
                del trial[key][i]
                if bad(trial):
                    cur = trial
                i -= 1
        return cur, violation
    i = len(cur["ops"]) - 1
    budget = 80
    while i >= 0 and budget > 0:
        if len(cur["ops"]) <= 1:
            break
        trial = copy.deepcopy(cur)
        del trial["ops"][i]
        budget -= 1
        if bad(trial):
            cur = trial
        i -= 1
    return cur, violation


def occupied_core(seed):
    """a USER refused because the account's only slot is taken, then PASS with that account's
    password (and everything else): the refused USER must not leave the account selected"""
    out = []
    for table, name, pw in (("mixed", "u2", "pw2"), ("twopw", "u3", "pw3"), ("noanon", "u2", "pw2")):
        for pre in ([], [["USER", "u1"]], [["USER", name]]):
            for (v, a) in [("PASS", pw), ("PWD", ""), ("MKD", "newdir"), ("EPSV", ""), ("MLST", "f")]:
                ops = [list(x) for x in pre] + [["USER", name], ["PASS", pw], [v, a], ["PWD", ""]]
                for mgr in MANAGERS:
                    out.append({"seed": seed * 10000 + 5000 + len(out), "table": table, "ops": ops, "occupied": [name], "manager": mgr, "core": f"occupied/{table}/{v}"})
    return out


def selftest_cases(n):
    out = []
    for i in range(n):
        rnd = random.Random(60_000 + i)
        t = rnd.choice(list(TABLES))
        if i % 3 == 2:
            pre, burst = gen_burst(rnd, t)
            out.append({"kind": "burst", "seed": 60_000 + i, "table": t, "pre": pre, "burst": burst, "manager": rnd.choice(["slow", "digest"])})
        else:
            out.append({"seed": 60_000 + i, "table": t, "ops": gen_history(rnd, t), "manager": rnd.choice(MANAGERS)})
    return out


def main(argv=None):
    a = common.tier_and_seed(argv)
    if a.replay:
        import json

        doc = json.load(open(a.replay))
        r = run_case(doc["case"])
        hit = [v for v in r["violations"] if v["clause"] == doc["clause"]]
        if hit:
            print(f"reproduced: {hit[0]}")
            print(f"VIOLATION property={PROP} replay={a.replay}")
            return 1
        print("not reproduced")
        return 0
    quick = a.tier == "quick"
    ev = common.Evidence(PROP, a.tier, a.seed, "exploration", "core: every verb x login state {none, USER pending, wrong PASS, logged then re-USER (pending / unknown user), logged, PASS first, re-USER same user} x 3 user tables (exhaustive over that grid); random: seeded histories (3..25 commands) interleaving USER/PASS (known, unknown, password-less, protected, right/wrong passwords) with every verb; non-trivial = at least one command was sent while the model says 'not logged in'; distinct = distinct run digests The core grid runs under three user managers (stock, suspending, digest-based); pipelined login bursts (several USER/PASS lines in one segment) run under suspending managers; twin runs: a logged-in and a not-logged-in session send the same line in the same event-loop step (0..3 steps apart, either one first).")
    rep = common.Reporter(PROP, ev)
    deadline = time.time() + (a.budget or (60 if quick else 1200))
    n = 3000 if quick else 400000
    with common.Pool() as pool:
        core = core_cases(a.seed) + occupied_core(a.seed)
        for vi, verb in enumerate(("RETR", "LIST", "MLSD", "LISTD", "STOR")):
            for pv in ("EPSV", "PASV"):
                for tp in (False, True):
                    for d in (0.0, 0.01, 1.0):
                        core.append({"kind": "pending", "seed": a.seed * 1000 + vi * 50 + len(core), "verb": verb, "passive": pv, "then_pass": tp, "delay": d, "fs_delay": [0.0001, 0.002] if d else None})
        def gen():
            yield from core
            yield from gen_twin_cases(a.seed)
            for i in range(n):
                s = a.seed * 1_000_000 + i
                rnd = random.Random(s * 5 + 2)
                t = rnd.choice(list(TABLES))
                if i % 4 == 3:
                    pre, burst = gen_burst(rnd, t)
                    c = {"kind": "burst", "seed": s, "table": t, "pre": pre, "burst": burst, "manager": rnd.choice(["slow", "digest", "slow", "memory"])}
                    if pre and pre[-1][0] == "PASS" and rnd.random() < 0.6:
                        c["failing_transfer"] = True
                        c["connect_after"] = round(rnd.uniform(0.0, 1.0), 3)
                        c["manager"] = rnd.choice(["slow", "digest"])
                        c["manager_delays"] = [0.1, 0.2, 0.3]
                        prot = [(login, pw) for (tag, login, pw, home) in TABLES[t] if pw]
                        if len(prot) >= 2 and rnd.random() < 0.6:
                            (a1, p1), (a2, _p2) = rnd.sample(prot, 2)
                            c["burst"] = [["USER", a1], ["PASS", p1], ["USER", a2]] + ([["PWD", ""]] if rnd.random() < 0.5 else [])
                else:
                    c = {"seed": s, "table": t, "ops": gen_history(rnd, t), "manager": rnd.choice(MANAGERS)}
                    known = [login for (tag, login, pw, home) in TABLES[t] if tag != "anon"]
                    if known and rnd.random() < 0.3:
                        c["occupied"] = [rnd.choice(known)]
                if i in (0, 3):
                    c["want_sample"] = True
                yield c

        cases = common.with_samples(gen(), 2)
        done = 0
        for case, res in pool.map(run_case, cases, deadline=deadline, chunksize=8):
            done += 1
            ev.add_run(res)
            for v in res["violations"]:
                rep.add(case, v)
        ev.extra["exhaustive_core"] = done >= len(core)
        ev.extra["core_cases"] = len(core)
        ev.assumptions = ["the login state is the reference model's (USER forgets the previous login at once; a session is logged only via USER->230 or USER->331 + right PASS->230)", "backend touches are observed by the spy subclass of MemoryPathIO; listeners and accepted data connections by the simulated network"]
        code = rep.finish(minimise=minimise, confirm=confirm)
    ev.write()
    print(f"{PROP}: {ev.evaluations} runs, {len(ev.nontrivial_digests)} distinct non-trivial, {ev.violations} violation classes, exit {code}")
    return code
