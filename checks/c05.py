"""C05 - the command dispatcher conforms to a sequential FTP session model.

A raw peer sends seeded command histories (all 25 verbs + unknown verbs, arguments from
existing / missing / file / dir paths, aliases, REST / TYPE / PROT / EPSV argument
classes, transfers with and without a data connection) strictly one command at a time;
every reply, the state it leaves behind and the backend tree are compared with the
reference model (simftp/model.py) step by step.
"""

from __future__ import annotations

import asyncio
import gc
import random
import time

from checks import common
from simftp import conform, scenario
from simftp import model as M
from simftp.peers import RawPeer

PROP = "C05"
TREE = {"/": None, "/f": b"0123456789abcdefghijklmnopqrstuvwxyzABCD", "/d": None, "/d/g": b"gggggggggg-0123456789-hh", "/d/e": None, "/z": None}
PATHS = ["f", "d", "d/g", "d/e", "z", "missing", "missing/x", "f/x", "f/x/y", "../d", "./f", "d/../f", "/d", "//d/", "", "d/", "/", "..", "d/g/..", "new", "d/new", "z/n1/n2", "/d/e/../g"]
REST_ARGS = ["0", "5", "05", "12", "-1", "3abc", "", " 7", "²", "١٢", "９", "1_0", "+4", "40", "41", "1000", "9" * 25, "9" * 4300, "9" * 5000, "1" + "0" * 9999]
VERBS_PLAIN = ["PWD", "CWD", "CDUP", "MKD", "RMD", "DELE", "RNFR", "RNTO", "MLST", "TYPE", "PBSZ", "PROT", "SYST", "ABOR", "REST", "NOOP", "SITE", "FEAT", "XPWD", "pwd", "Cwd"]


def users():
    return [M.UserSpec(None), M.UserSpec("u1", "pw1", home="/d"), M.UserSpec("u2", None, home="/")]


def users_spec():
    # every account admits one session: the single session of a history can log in, out and in
    # again as often as it likes - an earlier login of its own never counts against it
    return [{"login": None, "maximum_connections": 1}, {"login": "u1", "password": "pw1", "home_path": "/d", "maximum_connections": 1}, {"login": "u2", "maximum_connections": 1}]


def gen_history(rnd, n=None):
    n = n or rnd.choice([3, 5, 8, 12, 20, 30])
    ops = []
    if rnd.random() < 0.8:
        who = rnd.choice(["anonymous", "anonymous", "u1", "u2", "nobody"])
        ops.append(("USER", who))
        if who == "u1":
            ops.append(("PASS", rnd.choice(["pw1", "pw1", "pw1", "bad"])))
    while len(ops) < n:
        x = rnd.random()
        if x < 0.34:
            v = rnd.choice(["CWD", "CWD", "MKD", "RMD", "DELE", "RNFR", "RNTO", "MLST", "PWD", "CDUP", "PWD"])
            arg = "" if v in ("PWD", "CDUP") else rnd.choice(PATHS)
            ops.append((v, arg))
        elif x < 0.37:
            # the working directory loses an ancestor (renamed away) or is removed: CDUP / PWD /
            # relative arguments afterwards
            sub = rnd.choice(["d/e", "d", "/d/e"])
            ops.append(("CWD", sub))
            ops.append(("RNFR", rnd.choice(["/d", "/d/e"])))
            ops.append(("RNTO", rnd.choice(["/dz", "/d2", "/new/d"])))
            ops.append(("CDUP", ""))
            ops.append(("PWD", ""))
            ops.append((rnd.choice(["MLST", "CWD", "MKD"]), rnd.choice(["", ".", "x", ".."])))
        elif x < 0.42:
            ops.append(("RNFR", rnd.choice(PATHS)))
            if rnd.random() < 0.8:
                ops.append(("RNTO", rnd.choice(PATHS)))
                if rnd.random() < 0.3:
                    ops.append(("RNTO", rnd.choice(PATHS)))
        elif x < 0.50:
            ops.append(("REST", rnd.choice(REST_ARGS)))
        elif x < 0.58:
            ops.append((rnd.choice(["PASV", "EPSV", "EPSV", "EPSV"]), rnd.choice(["", "", "", "", "1", "ALL"]) if rnd.random() < 0.4 else ""))
        elif x < 0.82:
            if rnd.random() < 0.6:
                ops.append((rnd.choice(["PASV", "EPSV"]), ""))
            if rnd.random() < 0.35:
                ops.append(("REST", rnd.choice(["0", "5", "12", "40", "41"])))
            v = rnd.choice(["RETR", "RETR", "STOR", "APPE", "LIST", "MLSD"])
            ops.append((v, rnd.choice(PATHS), {"connect": rnd.choice(["before", "before", "after", "never"])}))
            if rnd.random() < 0.25:
                # silence on the established data connection (longer than wait_future_timeout in
                # some cases): no timeout is configured for it, so the transfer just takes longer
                if v in ("STOR", "APPE"):
                    ops[-1][2]["chunks"] = [rnd.choice([1, 3]), 4]
                    ops[-1][2]["pauses"] = [rnd.choice([0, 0.3, 2.0, 7.5]) for _ in range(rnd.randint(1, 4))]
                else:
                    ops[-1][2]["read_delay"] = rnd.choice([0.3, 2.0, 7.5])
            if rnd.random() < 0.3:
                ops.append((v if rnd.random() < 0.5 else "RETR", rnd.choice(PATHS), {"connect": rnd.choice(["before", "after"])}))
        elif x < 0.88:
            v = rnd.choice(["TYPE", "PROT", "PBSZ", "SYST", "ABOR"])
            arg = {"TYPE": rnd.choice(["I", "A", "E", "i", ""]), "PROT": rnd.choice(["P", "C", ""]), "PBSZ": "0"}.get(v, "")
            ops.append((v, arg))
        elif x < 0.93:
            ops.append((rnd.choice(["NOOP", "SITE", "FEAT", "XPWD", "HELP", "stat", "OPTS"]), rnd.choice(["", "x y"])))
        elif x < 0.97:
            who = rnd.choice(["anonymous", "u1", "u2", "nobody"])
            ops.append(("USER", who))
            if who == "u1" and rnd.random() < 0.7:
                ops.append(("PASS", rnd.choice(["pw1", "bad"])))
        else:
            ops.append(("PASS", rnd.choice(["pw1", "x"])))
    if rnd.random() < 0.3:
        ops.append(("QUIT", ""))
    # mutations aimed at the virtual root itself are outside the statement (as in C18): with
    # the in-memory backend RNFR / + RNTO x renames the root node itself
    out = []
    cwd_depth_unknown = True
    for o in ops[: n + 2]:
        if o[0] in ("RNFR", "RMD", "DELE") and M.resolve("/", o[1]) == "/":
            o = (o[0], "d/e") + tuple(o[2:])
        if o[0] in ("RNFR", "RMD") and o[1] in ("..", "d/g/..", "../d", "", "/", "//d/", "d/", "d/..", "."):
            # could resolve to the root from some working directory
            o = (o[0], "d/e") + tuple(o[2:])
        out.append(list(o))
    return out


def argclass(verb, arg):
    v = verb.upper()
    if v == "REST":
        if arg.isascii() and arg.isdigit():
            return "ascii-digits"
        if arg.isdigit():
            return "non-ascii-digits"
        return "not-a-number"
    if v == "EPSV":
        return "with-argument" if arg else "plain"
    return ""


def run_case(case):
    rng = random.Random(case["seed"] * 7919 + 43)
    net = scenario.random_net(rng, allow_small_pipe=False)
    if case.get("net"):
        net.update(case["net"])
    sc = {"seed": case["seed"], "server": {"block_size": case.get("B", 16), "wait_future_timeout": case.get("wait", 5.0), "users": users_spec()}, "net": net, "fs": {"delay": case.get("fs_delay"), "short_reads": False}}
    viol = []
    info = {}
    world = scenario.setup_world(sc)
    with world:
        server = scenario.finish_setup(world, sc)
        world.populate({k: v for k, v in TREE.items() if k != "/"})
        sess = M.Session(users(), dict(TREE))
        host = "::1" if case.get("ipv6") else "127.0.0.1"
        sess.ipv6_only = bool(case.get("ipv6"))
        peer = RawPeer(world, "s0", host=host, reply_timeout=100.0)
        ops = [tuple(o) for o in case["ops"]]

        async def main():
            await server.start(host, 2121)
            code, _ = await peer.connect()
            if code != "220":
                viol.append({"clause": "wrong-reply", "subject": "greeting", "detail": f"greeting {code}"})
                return
            steps = await conform.drive(peer, sess, ops, world=world, payload_of=lambda op: (b"UP:" + op[1].encode("utf-8", "replace") + b":") * 3)
            info["steps"] = steps
            peer.close()
            await asyncio.sleep(1)
            try:
                await asyncio.wait_for(server.close(), 1e4)
            except asyncio.TimeoutError:
                # (a session whose dispatcher died without closing its control connection)
                viol.append({"clause": "session-ended", "subject": "server-close-hangs", "detail": f"after the history {[list(o[:2]) for o in ops]} and the peer's disconnect, Server.close() did not complete within 10000 virtual seconds"[:400]})

        world.run(main())
        gc.collect()
        if world.outcome == "deadlock":
            viol.append({"clause": "hang", "subject": "deadlock", "detail": "simulation deadlocked"})
        elif world.outcome not in ("ok", "budget"):
            raise common.HarnessError(f"scenario failed: {world.outcome}: {world.error!r}")
        steps = info.get("steps", [])
        executed = 0
        verbs = {}
        for i, st in enumerate(steps):
            if st.final is not None or st.closed:
                executed += 1
                verbs[st.op[0].upper()] = verbs.get(st.op[0].upper(), 0) + 1
            for kind, text in st.problems:
                if kind == "not-run":
                    continue
                v = st.op[0].upper()
                ac = argclass(v, st.op[1])
                subject = v + (":" + ac if ac else "")
                if kind in ("session-ended", "no-reply") and v in ("PASV",):
                    subject = v
                viol.append({"clause": kind, "subject": subject, "detail": f"step {i}: {text}", "step": i})
        seen = set()
        out = []
        for v in viol:
            key = (v["clause"], v["subject"])
            if key not in seen:
                seen.add(key)
                out.append(v)
        res = {
            "digest": world.digest([tuple(x[1:]) for x in peer.transcript]),
            "nontrivial": executed >= 2,
            "vtime": world.loop.time() - 1000.0,
            "events": world.net.seq,
            "steps": world.loop.steps,
            "outcome": world.outcome,
            "counters": {"commands_checked": executed},
            "groups": {"verbs": verbs},
            "violations": out,
        }
        if case.get("want_sample"):
            res["sample"] = {"case": case, "transcript": [list(x) for x in peer.transcript][:40]}
    return res


def confirm(case, violation):
    r = run_case(case)
    return any(v["clause"] == violation["clause"] and v["subject"] == violation["subject"] for v in r["violations"])


def minimise(case, violation):
    import copy

    def bad(c):
        try:
            r = run_case(c)
        except Exception:
            return False
        return any(v["clause"] == violation["clause"] and v["subject"] == violation["subject"] for v in r["violations"])

    cur = copy.deepcopy(case)
    cur.pop("want_sample", None)
    # cut the history right after the offending step, then drop earlier ops one by one
    step = violation.get("step")
    if step is not None and step + 1 < len(cur["ops"]):
        trial = copy.deepcopy(cur)
        trial["ops"] = trial["ops"][: step + 1]
        if bad(trial):
            cur = trial
    budget = 150
    i = len(cur["ops"]) - 2
    while i >= 0 and budget > 0:
        trial = copy.deepcopy(cur)
        del trial["ops"][i]
        budget -= 1
        if bad(trial):
            cur = trial
        i -= 1
    for key, val in (("fs_delay", None), ("net", {"seg_mode": "whole", "latency": [0.001, 0.001], "send_delay": 0.0, "accept_delay": [0.0, 0.0]})):
        if cur.get(key) == val:
            continue
        trial = copy.deepcopy(cur)
        trial[key] = val
        if bad(trial):
            cur = trial
    return cur, violation


CORE = [
    [["USER", "anonymous"], ["REST", "5"], ["EPSV", ""], ["RETR", "f", {"connect": "before"}], ["EPSV", ""], ["RETR", "f", {"connect": "before"}]],
    [["USER", "anonymous"], ["EPSV", ""], ["REST", "5"], ["RETR", "f", {"connect": "before"}], ["RETR", "f", {"connect": "before"}]],
    [["USER", "anonymous"], ["EPSV", ""], ["REST", "3"], ["STOR", "f", {"connect": "after"}], ["RETR", "f", {"connect": "after"}]],
    [["USER", "anonymous"], ["EPSV", ""], ["STOR", "new", {"connect": "before", "chunks": [3, 4], "pauses": [7.5, 0, 7.5, 2.0]}], ["RETR", "new", {"connect": "after", "read_delay": 7.5}], ["PWD", ""]],
    [["USER", "anonymous"], ["REST", "²"], ["PWD", ""]],
    [["USER", "anonymous"], ["REST", "9" * 5000], ["PWD", ""]],
    [["USER", "anonymous"], ["EPSV", ""], ["REST", "9" * 4301], ["RETR", "f", {"connect": "before"}], ["PWD", ""]],
    [["USER", "anonymous"], ["REST", "١٢"], ["PWD", ""]],
    [["USER", "anonymous"], ["EPSV", "1"], ["PWD", ""]],
    [["USER", "anonymous"], ["MKD", "a"], ["MKD", "a/b"], ["CWD", "a/b"], ["RNFR", "/a"], ["RNTO", "/z"], ["CDUP", ""], ["PWD", ""], ["CWD", "/z/b"], ["CDUP", ""], ["PWD", ""]],
    [["USER", "anonymous"], ["CWD", "d/e"], ["RNFR", "/d"], ["RNTO", "/dz"], ["PWD", ""], ["CDUP", ""], ["PWD", ""], ["MLST", ""], ["CWD", ".."], ["PWD", ""]],
    [["USER", "anonymous"], ["RNFR", "f"], ["RNTO", "d/g"], ["RNTO", "h"], ["RNTO", "h2"]],
    [["USER", "anonymous"], ["RNFR", "d"], ["RNTO", "d/e/x"], ["MLST", "d"], ["PWD", ""]],
    [["USER", "anonymous"], ["RNFR", "d/g"], ["RNTO", "f/x"], ["MLST", "d/g"]],
    [["USER", "anonymous"], ["CWD", "d"], ["USER", "u1"], ["PASS", "pw1"], ["PWD", ""], ["USER", "anonymous"], ["PWD", ""]],
    [["USER", "anonymous"], ["PASV", ""], ["LIST", "d", {"connect": "never"}], ["PWD", ""], ["MLSD", "d", {"connect": "after"}]],
    [["USER", "anonymous"], ["MKD", "f/x"], ["MKD", "z/a/b"], ["RMD", "z"], ["RMD", "z/a/b"], ["DELE", "d"], ["DELE", "f"], ["QUIT", ""]],
    [["PWD", ""], ["REST", "4"], ["SYST", ""], ["NOOP", ""], ["PASS", "x"], ["USER", "u1"], ["PWD", ""], ["PASS", "bad"], ["PASS", "pw1"], ["PASS", "pw1"]],
]


CORE_WAIT_NONE = [
    [["USER", "anonymous"], ["EPSV", ""], ["RETR", "f", {"connect": "after"}], ["PWD", ""]],
    [["USER", "anonymous"], ["PASV", ""], ["STOR", "new", {"connect": "after"}], ["RETR", "new", {"connect": "after"}]],
    [["USER", "anonymous"], ["EPSV", ""], ["LIST", "d", {"connect": "after"}], ["MLSD", "", {"connect": "after"}], ["APPE", "f", {"connect": "after"}]],
]


def selftest_cases(n):
    out = []
    for i in range(n):
        rnd = random.Random(50_000 + i)
        out.append({"seed": 50_000 + i, "ops": gen_history(rnd), "fs_delay": rnd.choice([None, [0.0001, 0.001]])})
    return out


def main(argv=None):
    a = common.tier_and_seed(argv)
    if a.replay:
        import json

        doc = json.load(open(a.replay))
        r = run_case(doc["case"])
        hit = [v for v in r["violations"] if v["clause"] == doc["clause"]]
        if hit:
            print(f"reproduced: {hit[0]}")
            print(f"VIOLATION property={PROP} replay={a.replay}")
            return 1
        print("not reproduced")
        return 0
    quick = a.tier == "quick"
    ev = common.Evidence(PROP, a.tier, a.seed, "exploration", "hand-picked core histories + seeded random command histories (3..30 commands over all 25 verbs and unknown verbs; arguments from existing/missing/file/dir paths and aliases; REST/TYPE/PROT/EPSV argument classes incl. non-ASCII digits; transfers with the data connection made before / after the command or never), sent one at a time; every reply, PWD, listing, transferred bytes and the backend tree are compared with the reference model after each command; non-trivial = at least two commands were answered; distinct = distinct run digests")
    rep = common.Reporter(PROP, ev)
    deadline = time.time() + (a.budget or (75 if quick else 1500))
    n = 4000 if quick else 600000
    with common.Pool() as pool:
        cases = [{"seed": a.seed * 100 + i, "ops": ops, "core": True} for i, ops in enumerate(CORE)]
        # wait_future_timeout=None ("wait without limit"): the data connection is made after the command
        for j, ops in enumerate(CORE_WAIT_NONE):
            cases.append({"seed": a.seed * 100 + 50 + j, "ops": ops, "core": True, "wait": None})
        cases.append({"seed": a.seed * 100 + 99, "ops": [["USER", "anonymous"], ["PASV", ""], ["PWD", ""], ["EPSV", ""], ["RETR", "f", {"connect": "before"}]], "core": True, "ipv6": True})
        core_n = len(cases)

        def gen(core=cases):
            yield from core
            for i in range(n):
                s = a.seed * 1_000_000 + i
                rnd = random.Random(s * 3 + 1)
                c = {"seed": s, "ops": gen_history(rnd), "fs_delay": rnd.choice([None, None, [0.0001, 0.001]]), "ipv6": rnd.random() < 0.15}
                if i == 0:
                    c["want_sample"] = True
                yield c

        cases = common.with_samples(gen(), 2)
        for case, res in pool.map(run_case, cases, deadline=deadline, chunksize=8):
            ev.add_run(res)
            for v in res["violations"]:
                rep.add(case, v)
        ev.extra["core_histories"] = len(CORE)
        ev.extra["planned"] = core_n + n
        ev.assumptions = [
            "the reference model (simftp/model.py) is the specification; it is deliberately relational where the statement is (e.g. 'some 4xx/5xx' when the backend refuses)",
            "MemoryPathIO only; the other shipped backends are compared in C18",
            "one command at a time: the next command is sent only after the final reply of the previous one and a short quiet window",
        ]
        code = rep.finish(minimise=minimise, confirm=confirm)
    ev.write()
    print(f"{PROP}: {ev.evaluations} runs, {len(ev.nontrivial_digests)} distinct non-trivial, {ev.violations} violation classes, exit {code}")
    return code
