"""C13 - backend failures are contained: 451, data channel closed, session lives on.

G-sweep: for every corpus script the pilot run counts the backend calls M made on
behalf of the session; for k = 1..M the same seed is re-executed with the k-th call
raising (OSError EIO / ENOSPC / a non-OSError bug), and separately with *every* call of
one operation failing.  A second session runs its own script concurrently and must
behave exactly as in the fault-free run.
"""

from __future__ import annotations

import asyncio
import errno
import gc
import hashlib
import random
import re
import time

from checks import common
from simftp import corpus, fs as simfs, scenario
from simftp.world import aioftp

PROP = "C13"
ERRS = [errno.EIO, errno.ENOSPC, "runtime", errno.EACCES, "value"]
PROBE = [["fs_off"], ["cmd", "PWD"], ["put", "STOR /probe_{L}.bin", 37], ["get", "RETR /probe_{L}.bin"]]


def build(case):
    B = case.get("B", 16)
    rng = random.Random(case["seed"] * 7919 + 13)
    net = scenario.random_net(rng, allow_small_pipe=case.get("small_pipe", True))
    if case.get("net"):
        net.update(case["net"])
    S = corpus.scripts(B)
    tree = {}
    sessions = []
    names = [case["script"]] + list(case.get("others") or ())
    for i, name in enumerate(names):
        prefix = f"/s{i}"
        tree.update(corpus.tree(prefix, B))
        script = [op for op in S[name] if op[0] != "quit"]
        script = script + [[x.replace("{L}", f"s{i}") if isinstance(x, str) else x for x in op] for op in PROBE] + [["quit"]]
        sessions.append({"label": f"s{i}", "script": script, "prefix": prefix, "start": 0.0 if i == 0 else 0.0007 * i, "data_timeout": 500.0, "reply_timeout": 2000.0})
    faults = []
    if case.get("k") is not None and case.get("burst"):
        faults.append({"at": ["fsfrom", case["k"]], "session": "s0", "errno": case.get("err", errno.EIO)})
    elif case.get("k") is not None:
        faults.append({"at": ["fslabel", case["k"]], "session": "s0", "errno": case.get("err", errno.EIO)})
    if case.get("allop"):
        faults.append({"at": ["fsall", case["allop"]], "session": "s0", "errno": case.get("err", errno.EIO)})
    return {
        "seed": case["seed"],
        "server": {"block_size": B, "idle_timeout": None, "socket_timeout": None, "wait_future_timeout": None, "users": corpus.USERS},
        "net": net,
        "fs": {"delay": case.get("fs_delay", [0.0001, 0.002]), "tree": tree, "short_reads": bool(case["seed"] & 1), "close_returns": True if (case["seed"] + len(case["script"])) % 2 else None},
        "sessions": sessions,
        "faults": faults,
        "settle": 1000.0,
        "session_deadline": 50000.0,
        "final_close": True,
    }


_PORT = re.compile(r"\(\|\|\|\d+\|\)|\(\d+,\d+,\d+,\d+,\d+,\d+\)")
_TIME = re.compile(r"(modify|create)=\d+;", re.I)
_LSDATE = re.compile(r"\b[A-Z][a-z]{2} [ \d]\d (?:\d\d:\d\d| \d{4})\b")


def essence(sobs):
    """What a session observed, with ports and time facts masked."""
    out = []
    for rec in sobs.ops:
        op = rec["op"]
        if "reply" in rec and rec["reply"]:
            code, lines = rec["reply"]
            txt = _TIME.sub("T;", _PORT.sub("(P)", " | ".join(lines)))
            out.append((op[0], code, txt))
        elif "res" in rec:
            r = rec["res"]
            d = r.get("data")
            if d is not None:
                d = _LSDATE.sub("D", _TIME.sub("T;", d.decode("latin-1")))
                d = hashlib.sha256("\n".join(sorted(d.splitlines())).encode("latin-1")).hexdigest()[:12] if op[1].split()[0] in ("MLSD", "LIST") else hashlib.sha256(d.encode("latin-1")).hexdigest()[:12]
            how = r.get("how")
            if (r.get("final") or "")[:1] != "2":
                how = None  # whether the peer's last write saw the reset of a failed transfer is a matter of timing
            out.append((op[1].split()[0], r.get("pre"), r.get("mark"), r.get("final"), d, how))
        elif "code" in rec:
            out.append((op[0], rec["code"]))
        else:
            out.append((op[0], rec.get("done", False)))
    return out


STAGGER_FIRST = ["MKD p1", "RMD d1/sub", "DELE a.bin", "MLST a.bin", "CWD d1", "RNFR a.bin"]
STAGGER_SECOND = ["PWD", "NOOP", "MLST b.bin"]


def run_stagger_case(case):
    """The next command line arrives k event-loop steps after the one that hits the backend
    fault (zero-latency network, backend without delays): somewhere in that window the failed
    handler and the freshly read line complete in the same round of the dispatcher.  The
    failed command gets its 451, the next one its normal reply, and the session goes on."""
    sc = {"seed": case["seed"], "server": {"block_size": 16, "wait_future_timeout": 5.0, "users": corpus.USERS}, "net": {"latency": [0.0, 0.0], "send_delay": 0.0, "accept_delay": [0.0, 0.0], "seg_mode": "whole"}, "fs": {"delay": None, "tree": corpus.tree("/s0", 16)}}
    viol = []
    info = {}
    world = scenario.setup_world(sc)
    with world:
        server = scenario.finish_setup(world, sc)
        from simftp.peers import PeerGone, RawPeer, ReplyTimeout

        peer = RawPeer(world, "s0", reply_timeout=50.0)
        first, second = case["first"], case["second"]

        async def main():
            await server.start("127.0.0.1", 2121)
            await world.spawn(session(), "s0")
            peer.close()
            await asyncio.sleep(1)
            await common.close_server(server)

        async def session():
            await peer.connect()
            await peer.cmd("USER anonymous")
            await peer.cmd("CWD /s0")
            for _ in range(case.get("warm", 0)):
                await peer.cmd("NOOP")
            n0 = world.fsctl.per_label.get("s0", 0)
            if case.get("j"):
                world.fsctl.fail_label_at[("s0", n0 + case["j"])] = case.get("err", errno.EIO)

            def send_second():
                if info.get("second_sent"):
                    return
                info["second_sent"] = True
                peer.note("C", second)
                peer.writer.write((second + "\r\n").encode())

            peer.note("C", first)
            peer.writer.write((first + "\r\n").encode())
            if case["k"] == 0:
                send_second()
            else:
                world.loop.at_step(world.loop.steps + case["k"], send_second)
                # the loop only steps while something is runnable: when the server has gone
                # quiet before step k, the line leaves one virtual millisecond later instead
                world.loop.call_later(0.001, send_second)
            got = []
            try:
                got.append((await peer.reply(50.0))[0])
                got.append((await peer.reply(50.0))[0])
                got.append((await peer.cmd("PWD"))[0])
            except ReplyTimeout:
                got.append("<no reply>")
            except PeerGone:
                got.append("<closed>")
            info["got"] = got
            info["calls"] = world.fsctl.per_label.get("s0", 0) - n0
            fired = len(world.fsctl.faults_fired)
            info["fired"] = fired
            if fired:
                if got[:1] != ["451"]:
                    viol.append({"clause": "fault-not-answered-451", "subject": f"{first.split()[0]}:staggered", "detail": f"{first!r} with its backend call {case['j']} failing, {second!r} sent {case['k']} loop steps later: replies {got}"})
                elif len(got) < 3 or got[1][0] not in "2345" or got[2] != "257":
                    viol.append({"clause": "session-unusable-after-backend-failure", "subject": f"{first.split()[0]}:staggered", "detail": f"{first!r} failed in the backend (451), {second!r} arrived {case['k']} loop steps after it: replies {got} - the next command was not answered / the session did not go on"})

        world.run(main())
        if world.outcome not in ("ok", "budget", "deadlock"):
            raise common.HarnessError(f"scenario failed: {world.outcome}: {world.error!r}")
        res = {
            "digest": world.digest([tuple(x[1:]) for x in peer.transcript] + [case["k"], case.get("j")]),
            "nontrivial": bool(info.get("fired")),
            "vtime": world.loop.time() - 1000.0,
            "events": world.net.seq,
            "steps": world.loop.steps,
            "outcome": world.outcome,
            "counters": {"faults.fs_calls_failed": info.get("fired", 0), "probe.next_command_staggered_by_steps": 1},
            "groups": {"fault_verb": {first.split()[0] + "/staggered": int(bool(info.get("fired")))}},
            "violations": viol,
            "calls": info.get("calls", 0),
        }
        if case.get("want_sample"):
            res["sample"] = {"case": case, "transcript": [list(x) for x in peer.transcript][:20]}
    return res


SLOW_SCRIPT = ["PWD", "MKD newdir", "MLST a.bin", "CWD d1", "CDUP", "RNFR b.bin", "RNTO b2.bin", "DELE empty", "RMD newdir", "MLST nope", "PWD"]


def run_slowcall_case(case):
    """The shipped AsyncPathIO on a real scratch directory, `path_timeout` set, and the k-th
    executor call taking far longer than it: a backend call that does not come back in time is
    a backend failure like any other - 451 for the command it belongs to, and the session goes
    on."""
    import os
    import shutil
    import tempfile

    from checks import c18
    from simftp.peers import PeerGone, RawPeer, ReplyTimeout

    sc = {"seed": case["seed"], "net": {"latency": [0.0005, 0.002], "seg_mode": "whole"}}
    viol = []
    info = {"slow": 0}
    world = scenario.setup_world(sc)
    scratch = tempfile.mkdtemp(prefix="c13_", dir=c18.SCRATCH_ROOT)
    world.digest_masks = [scratch]
    try:
        with world:
            scenario.apply_net(world.net, sc["net"])
            c18.fs_populate(scratch, {"/a.bin": b"0123456789" * 5, "/b.bin": b"bbbb", "/empty": b"", "/d1": None, "/d1/x": b"x"})
            server = aioftp.Server([aioftp.User(base_path=scratch)], path_io_factory=aioftp.AsyncPathIO, block_size=16, path_timeout=case.get("path_timeout", 0.05), wait_future_timeout=5.0)
            world.server = server
            r2 = world.rng("executor")
            calls = {"n": 0}

            def delay():
                calls["n"] += 1
                if info.get("armed") and calls["n"] == info["armed"]:
                    info["slow"] += 1
                    info["slow_during"] = info.get("current")
                    return case.get("slow_for", 1.0)
                return r2.choice([0.0, 0.0001, 0.001])

            world.loop.executor_delay = delay
            peer = RawPeer(world, "s0", reply_timeout=200.0)
            replies = []

            async def session():
                await peer.connect()
                await peer.cmd("USER anonymous")
                info["armed"] = calls["n"] + case["k"]
                for line in SLOW_SCRIPT:
                    info["current"] = line
                    try:
                        code, _ = await peer.cmd(line)
                    except ReplyTimeout:
                        code = "<no reply>"
                    except PeerGone:
                        code = "<closed>"
                    replies.append((line, code))
                    if code.startswith("<"):
                        break

            async def main():
                await server.start("127.0.0.1", 2121)
                await world.spawn(session(), "s0")
                peer.close()
                await asyncio.sleep(2)
                await common.close_server(server)

            world.run(main())
            if world.outcome not in ("ok", "budget", "deadlock"):
                raise common.HarnessError(f"scenario failed: {world.outcome}: {world.error!r}")
            if info["slow"]:
                hit = info.get("slow_during")
                got = dict(replies).get(hit)
                if got != "451":
                    viol.append({"clause": "fault-not-answered-451", "subject": f"{(hit or '?').split()[0]}:path_timeout", "detail": f"executor call {case['k']} (during {hit!r}) took {case.get('slow_for', 1.0)}s with path_timeout={case.get('path_timeout', 0.05)}: reply {got}; all replies {replies}"})
                if len(replies) < len(SLOW_SCRIPT) or replies[-1][1] != "257":
                    viol.append({"clause": "session-unusable-after-backend-failure", "subject": f"{(hit or '?').split()[0]}:path_timeout", "detail": f"after the timed-out backend call during {hit!r} the session did not go on: {replies}"})
            res = {
                "digest": world.digest([tuple(x[1:]) for x in peer.transcript] + [case["k"]]),
                "nontrivial": bool(info["slow"]),
                "vtime": world.loop.time() - 1000.0,
                "events": world.net.seq,
                "steps": world.loop.steps,
                "outcome": world.outcome,
                "counters": {"faults.backend_call_exceeded_path_timeout": info["slow"]},
                "groups": {"fault_verb": {((info.get("slow_during") or "-").split()[0]) + "/path_timeout": info["slow"]}},
                "violations": viol,
                "executor_calls": calls["n"],
            }
            if case.get("want_sample"):
                res["sample"] = {"case": case, "replies": replies}
            return res
    finally:
        shutil.rmtree(scratch, ignore_errors=True)


def run_case(case):
    if case.get("kind") == "stagger":
        return run_stagger_case(case)
    if case.get("kind") == "slowcall":
        return run_slowcall_case(case)
    sc = build(case)
    viol = []
    state = {}

    def inspect(world, obs, phase):
        if phase == "settled":
            net = world.net
            # model-level check: every server-side data transport of a finished session is closed
            for t in net.transports:
                if t.side == "s" and t.conn.port != world.server.server_port and not t._closing and not t._lost_called:
                    state.setdefault("open_data", []).append((t.conn.label, t.conn.id))

    obs = scenario.run_scenario(sc, inspect=inspect)
    gc.collect()
    world = obs.world
    if common.frozen_violation(world):
        viol.append(common.frozen_violation(world))
    elif obs.outcome not in ("ok", "deadlock", "budget"):
        raise common.HarnessError(f"scenario failed: {obs.outcome}: {obs.error!r}")
    s0 = obs.sessions["s0"]
    faulted_ops = 0
    for idx, rec in enumerate(s0.ops):
        ff = rec.get("fs_faults")
        if not ff:
            continue
        faulted_ops += 1
        op = rec["op"]
        fop = ff[0][0]
        if op[0] == "cmd":
            verb = op[1].split()[0]
            code = rec.get("reply", (None,))[0]
            if code != "451":
                viol.append({"clause": "fault-not-answered-451", "subject": f"{verb}:{fop}", "detail": f"backend {fop} failed during {op[1]!r} but the reply was {code}"})
        elif op[0] in ("get", "put"):
            verb = op[1].split()[0]
            res = rec.get("res") or {}
            final = res.get("final")
            if final != "451":
                viol.append({"clause": "fault-not-answered-451", "subject": f"{verb}:{fop}", "detail": f"backend {fop} failed during {op[1]!r}: mark={res.get('mark')} final={final} how={res.get('how')}"})
            if res.get("mark") and res.get("how") == "timeout":
                viol.append({"clause": "peer-left-waiting-on-data-channel", "subject": f"{verb}:{fop}", "detail": f"after {res.get('mark')} and a backend failure in {fop} the server never closed the data connection (peer waited 500 virtual s)"})
        elif op[0] in ("raw", "reply"):
            # a pipelined burst: the fault hit one of its commands; the group of replies that
            # belongs to the burst must contain the 451 (and, below, the session must go on)
            lo = idx
            while lo > 0 and s0.ops[lo]["op"][0] != "raw":
                lo -= 1
            hi = lo + 1
            while hi < len(s0.ops) and s0.ops[hi]["op"][0] == "reply":
                hi += 1
            codes = [(r.get("reply") or (None,))[0] for r in s0.ops[lo + 1 : hi]]
            if "451" not in codes and None not in codes:
                viol.append({"clause": "fault-not-answered-451", "subject": f"pipelined:{fop}", "detail": f"backend {fop} failed during the pipelined burst {s0.ops[lo]['op'][1]!r}, replies {codes}"})
        else:
            viol.append({"clause": "fault-outside-command", "subject": f"{op[0]}:{fop}", "detail": f"backend call failed during op {op}"})
    if faulted_ops:
        # the session must have survived: every later op completed and the probe succeeded
        if s0.ended != "done":
            last = s0.ops[-1]["op"] if s0.ops else None
            first_f = next(r for r in s0.ops if r.get("fs_faults"))
            subject = f"{first_f['op'][1].split()[0] if len(first_f['op']) > 1 else first_f['op'][0]}:{first_f['fs_faults'][0][0]}"
            detail = f"session ended as {s0.ended!r} at op {last}"
            # One shape is a recorded finding (known_findings.json, C13-refused-transfer-leaves-dead-
            # data-connection) and is named as such, so that every other loss of a session is still
            # reported: the failing call belongs to the pre-checks of a transfer whose data
            # connection had been made first; the transfer is refused (451, no 1xx mark), the peer
            # closes that data connection, and the session is lost at a following transfer that
            # reuses the passive listener (no PASV / EPSV, nothing but such transfers in between).
            fi = s0.ops.index(first_f)

            def reuses(r):
                return r["op"][0] in ("get", "put") and isinstance(r["op"][-1], dict) and "p" in r["op"][-1] and r["op"][-1]["p"] is None

            def refused_with_dconn(r):
                # a transfer with the data connection made first, answered 4xx / 5xx without a 1xx mark
                rr = r.get("res") or {}
                oo = r["op"][-1] if isinstance(r["op"][-1], dict) else {}
                return r["op"][0] in ("get", "put") and rr.get("mark") is None and (rr.get("final") or "")[:1] in ("4", "5") and oo.get("c", "before") == "before"

            # (the refused transfer is the faulted operation itself - 451 - or a later one that is
            # refused with 550 because the faulted operation, a CWD, left the session in another
            # directory; and the dead connection is handed on: a transfer that picks it leaves the
            # connection the peer then made for it behind, so the loss can come a few transfers
            # later - as long as everything in between is a transfer over the same listener)
            ri = next((n for n in range(fi, len(s0.ops)) if refused_with_dconn(s0.ops[n])), None)
            later = s0.ops[ri + 1 :] if ri is not None else []
            nxt = later[-1] if later else None
            if ri is not None and nxt is not None and all(reuses(r) for r in later):
                first_r = s0.ops[ri]
                subject = "listener-reuse-after-refused-transfer"
                detail = f"backend {first_f['fs_faults'][0][0]} failed during {first_f['op'][1]!r}; {first_r['op'][1]!r} was refused with {(first_r.get('res') or {}).get('final')} (data connection already made, closed by the peer); a following transfer over the same listener ({nxt['op'][1]!r}) picked a dead connection: {detail}"
            viol.append({"clause": "session-lost-after-backend-failure", "subject": subject, "detail": detail})
        else:
            pr = [r for r in s0.ops if r["op"][0] in ("cmd", "put", "get")][-3:]
            ok = pr[0].get("reply", (None,))[0] == "257" and pr[1]["res"].get("final") == "226" and pr[2]["res"].get("final") == "226" and pr[2]["res"].get("data") == scenario.payload("STOR /probe_s0.bin", 37)
            if not ok:
                first_f = next(r for r in s0.ops if r.get("fs_faults"))
                viol.append({"clause": "session-unusable-after-backend-failure", "subject": f"{first_f['op'][1].split()[0] if len(first_f['op']) > 1 else first_f['op'][0]}:{first_f['fs_faults'][0][0]}", "detail": f"probe after the fault failed: {[(r.get('reply') or {k: v for k, v in r.get('res', {}).items() if k in ('pre', 'mark', 'final', 'how')}) for r in pr]}"})
    for lab, cid in state.get("open_data", []):
        viol.append({"clause": "data-connection-left-open", "subject": f"{lab}", "detail": f"server-side data transport of conn {cid} ({lab}) still open after all sessions finished"})
    for e in world.loop.exc_log:
        if "never retrieved" in e["message"]:
            continue  # log hygiene (an un-retrieved task exception), not something the property forbids
        viol.append({"clause": "unhandled-exception", "subject": f"{e['exc_type']}", "detail": f"{e['message']}: {e['exception']}"})
    others = {l: essence(s) for l, s in obs.sessions.items() if l != "s0"}
    ref = case.get("others_ref")
    if ref is not None:
        for l, e in others.items():
            if _j(e) != ref.get(l):
                viol.append({"clause": "other-session-disturbed", "subject": l, "detail": f"{l} observed {_diff(_j(e), ref.get(l))}"})
    seen = set()
    out = []
    for v in viol:
        key = (v["clause"], v["subject"])
        if key not in seen:
            seen.add(key)
            out.append(v)
    nfault = len(world.fsctl.faults_fired)
    counters = {"faults.fs_calls_failed": nfault, "faulted_commands": faulted_ops, "fs_calls": world.fsctl.n}
    groups = {"fault_op": {}, "fault_verb": {}}
    for rec in s0.ops:
        for fop, n in rec.get("fs_faults") or ():
            groups["fault_op"][fop] = groups["fault_op"].get(fop, 0) + 1
            v = rec["op"][1].split()[0] if len(rec["op"]) > 1 and isinstance(rec["op"][1], str) else rec["op"][0]
            groups["fault_verb"][v] = groups["fault_verb"].get(v, 0) + 1
    if world.fsctl.max_in_flight > 1:
        counters["probe.two_sessions_inside_backend"] = 1
    res = {
        "digest": obs.digest,
        "nontrivial": nfault > 0,
        "vtime": obs.vtime,
        "events": obs.events,
        "steps": obs.steps,
        "outcome": obs.outcome,
        "counters": counters,
        "groups": groups,
        "violations": out,
        "calls_s0": world.fsctl.per_label.get("s0", 0),
        "calls_before_probe": next((r.get("fs_n_before") for r in s0.ops if r["op"][0] == "fs_off"), None),
        "others": {l: _j(e) for l, e in others.items()},
        "ops_with_calls": _call_ranges(s0),
    }
    if case.get("want_sample"):
        res["sample"] = {"case": {k: v for k, v in case.items() if k != "others_ref"}, "fs_faults": world.fsctl.faults_fired[:5], "transcript_s0": [list(x) for x in s0.peer.transcript][:60]}
    return res


def _call_ranges(s0):
    """last backend-call index (per session) after each op, up to the probe"""
    out = []
    for r in s0.ops:
        if r["op"][0] == "fs_off":
            break
        if "fs_n" in r:
            out.append(r["fs_n"])
    return out


def _j(e):
    import json

    return json.loads(json.dumps(e, default=repr))


def _diff(a, b):
    if b is None:
        return "no reference"
    for i, (x, y) in enumerate(zip(a, b)):
        if x != y:
            return f"op {i}: {x} instead of {y}"
    return f"{len(a)} ops instead of {len(b)}"


def confirm(case, violation):
    r = run_case(case)
    return any(v["clause"] == violation["clause"] and v["subject"] == violation["subject"] for v in r["violations"])


def minimise(case, violation):
    def bad(c):
        try:
            r = run_case(c)
        except Exception:
            return False
        return any(v["clause"] == violation["clause"] and v["subject"] == violation["subject"] for v in r["violations"])

    cur = dict(case)
    for change in ({"others": [], "others_ref": None}, {"fs_delay": None}, {"net": {"seg_mode": "whole", "latency": [0.001, 0.001], "capacity": 262144, "high_water": 65536, "send_delay": 0.0, "accept_delay": [0.0, 0.0]}}, {"err": errno.EIO}):
        trial = dict(cur)
        trial.update(change)
        if trial != cur and bad(trial):
            cur = trial
    cur.pop("want_sample", None)
    return cur, violation


def selftest_cases(n):
    r = random.Random(1313)
    names = sorted(corpus.scripts())
    out = []
    for i in range(n):
        c = {"script": r.choice(names), "seed": r.randrange(10**6), "k": r.randrange(1, 50), "err": r.choice(ERRS), "burst": r.random() < 0.3}
        if r.random() < 0.4:
            c["others"] = [r.choice(names)]
        out.append(c)
    for i in range(n // 3):
        out.append({"kind": "stagger", "seed": 1313 + i, "first": STAGGER_FIRST[i % len(STAGGER_FIRST)], "second": STAGGER_SECOND[i % len(STAGGER_SECOND)], "k": r.randrange(0, 40), "j": r.randrange(1, 4), "warm": i % 3})
    return out


def main(argv=None):
    a = common.tier_and_seed(argv)
    if a.replay:
        import json

        doc = json.load(open(a.replay))
        r = run_case(doc["case"])
        hit = [v for v in r["violations"] if v["clause"] == doc["clause"]]
        if hit:
            print(f"reproduced: {hit[0]}")
            print(f"VIOLATION property={PROP} replay={a.replay}")
            return 1
        print("not reproduced")
        return 0
    quick = a.tier == "quick"
    ev = common.Evidence(PROP, a.tier, a.seed, "fault_enumeration", "every corpus script x every backend call index k of the session (pilot run counts them) x error kind, plus 'every call of operation X fails'; a second session runs concurrently and is compared with its fault-free transcript; non-trivial = at least one backend call actually failed; distinct = distinct run digests Plus a step-granular stagger sweep: the next command line arrives k = 0..39 loop steps after the command whose j-th backend call fails.")
    rep = common.Reporter(PROP, ev)
    names = sorted(corpus.scripts())
    r = random.Random(a.seed)
    seeds = [a.seed * 1000 + i for i in range(1 if quick else 5)]
    deadline = time.time() + (a.budget or (100 if quick else 1500))
    with common.Pool() as pool:
        pilots = []
        for s in seeds:
            for i, n in enumerate(names):
                pilots.append({"script": n, "seed": s, "others": [names[(i + 5) % len(names)]], "want_sample": i == 0})
        plan = []
        for case, res in pool.map(run_case, pilots, chunksize=1):
            ev.add_run(res)
            for v in res["violations"]:
                rep.add(case, v)
            M = res["ops_with_calls"][-1] if res["ops_with_calls"] else 0
            for k in range(1, M + 1):
                errs = ERRS if not quick else [ERRS[(k + case["seed"]) % len(ERRS)]]
                for e in errs:
                    plan.append({"script": case["script"], "seed": case["seed"], "k": k, "err": e, "others": case["others"], "others_ref": res["others"]})
                # repeated faults: every backend call of the session from the k-th on fails
                plan.append({"script": case["script"], "seed": case["seed"], "k": k, "burst": True, "err": errs[0], "others": case["others"], "others_ref": res["others"]})
            for op in simfs.OPS:
                plan.append({"script": case["script"], "seed": case["seed"], "allop": op, "err": r.choice(ERRS), "others": case["others"], "others_ref": res["others"]})
        # step-granular sub-sweep: the next line arrives k loop steps after the faulted one
        stag = []
        for fi, first in enumerate(STAGGER_FIRST):
            pil = run_stagger_case({"kind": "stagger", "seed": a.seed * 100 + fi, "first": first, "second": "PWD", "k": 0, "j": 0})
            for j in range(1, pil["calls"] + 1):
                for k in range(0, 40, 1 if not quick else 1):
                    stag.append({"kind": "stagger", "seed": a.seed * 100 + fi, "first": first, "second": STAGGER_SECOND[(j + k) % len(STAGGER_SECOND)], "k": k, "j": j, "warm": (k + j) % 3})
        # every executor call of a scripted session on AsyncPathIO exceeding path_timeout
        pil = run_slowcall_case({"kind": "slowcall", "seed": a.seed, "k": 10**9})
        slow = [{"kind": "slowcall", "seed": a.seed * 10 + (k % 3), "k": k} for k in range(1, pil["executor_calls"] + 1)]
        # always run (whatever part of the sweep the budget reaches): a failing pre-check of a
        # transfer whose data connection was made first, followed by a transfer over the same
        # listener - the recorded finding C13-refused-transfer-leaves-dead-data-connection
        reuse = [{"script": "listener_reuse", "seed": 1, "k": k, "err": ERRS[k % len(ERRS)], "others": [], "net": {"seg_mode": "whole", "latency": [0.001, 0.001], "capacity": 262144, "high_water": 65536, "send_delay": 0.0, "accept_delay": [0.0, 0.0]}} for k in range(1, 9)]
        plan = reuse + slow + stag + plan
        total = len(plan)
        for c in plan[:2]:
            c["want_sample"] = True
        done = 0
        for case, res in pool.map(run_case, plan, deadline=deadline):
            done += 1
            ev.add_run(res)
            for v in res["violations"]:
                rep.add({k: v2 for k, v2 in case.items()}, v)
        ev.extra["sweep"] = {"scripts": len(names), "latency_seeds": len(seeds), "positions_planned": total, "positions_run": done, "error_kinds": [str(e) for e in ERRS], "complete": done == total}
        ev.assumptions = [
            "backend faults are injected by a spy subclass of the real MemoryPathIO, inside universal_exception, before the real call (close: after it)",
            "the peer is a standard client: it keeps reading the data socket until EOF (bounded by 500 virtual seconds) and sends one command at a time",
            "complete only relative to the corpus and the latency seeds used",
        ]
        code = rep.finish(minimise=minimise, confirm=confirm)
    ev.write()
    print(f"{PROP}: {ev.evaluations} runs, {len(ev.nontrivial_digests)} distinct non-trivial, {ev.violations} violation classes, exit {code}")
    return code
