"""C09 - client tree operations (upload, download, recursive list, remove) are faithful.

Real client (its own MemoryPathIO as the local side) against the real server (spy
MemoryPathIO), MLSD server and LIST-fallback server variant.  Generated trees (depth <= 3,
fan-out <= 3, empty directories, empty files, same names at different levels,
position-stamped distinct contents); upload(src, dest, write_into) / download(...) /
list(path, recursive=True) / remove(path) for destinations '', one, two or three components,
absolute, from working directories '/', '/w', '/w/x', with small and large block sizes.
Oracle: the placement rule of the client tutorial as a spec function
(dest/source-name/... by default, dest/... with write_into); remote tree after upload ==
before + placed tree, byte for byte, nothing else created; download is the mirror image on
the local backend; recursive listing == every path of the subtree exactly once; remove ==
tree minus exactly that subtree.
"""

from __future__ import annotations

import asyncio
import gc
import pathlib
import random
import time

from checks import common
from simftp import fs as simfs, scenario
from simftp.world import aioftp

PROP = "C09"
NAMES = ["a", "b", "c", "sub", "data", "Data", "x.txt", "a", "A"]


def gen_tree(rnd, depth=0):
    """nested dict: name -> bytes | dict"""
    t = {}
    n = rnd.choice([0, 1, 2, 3]) if depth else rnd.choice([0, 1, 1, 2, 2, 3, 3])  # (an empty root directory too)
    for i in range(n):
        name = rnd.choice(NAMES)
        if name in t:
            name += str(i)
        if depth < 2 and rnd.random() < 0.45:
            t[name] = gen_tree(rnd, depth + 1)
        else:
            ln = rnd.choice([0, 1, 5, 40, 200])
            t[name] = bytes((rnd.randrange(256)) for _ in range(ln))
    return t


def flatten(tree, prefix):
    """nested dict -> {abs path: None|bytes} placed under prefix (prefix itself is a dir)"""
    out = {prefix: None}
    for k, v in tree.items():
        p = (prefix.rstrip("/") + "/" + k)
        if isinstance(v, dict):
            out.update(flatten(v, p))
        else:
            out[p] = v
    return out


def with_parents(d):
    out = dict(d)
    for p in list(d):
        q = p
        while q not in ("", "/"):
            q = q.rsplit("/", 1)[0] or "/"
            out.setdefault(q, None)
    out.setdefault("/", None)
    return out


def gen_case(seed):
    rnd = random.Random(seed * 5237 + 6)
    kind = rnd.choice(["upload", "upload", "download", "list", "remove", "upload_file", "download_file"])
    dest = rnd.choice(["", "d", "d/e", "d/e/f", "/abs/d", "w2", "/"])
    write_into = rnd.random() < 0.5
    if kind in ("upload_file", "download_file") and write_into and dest in ("", "/"):
        dest = "newname.bin"  # with write_into the destination names the file itself
    tree = gen_tree(rnd)
    shape = rnd.random()
    if shape < 0.05:
        # a deep chain: "every tree shape" includes subtrees far deeper than anything in the suite
        depth = rnd.choice([12, 31, 33, 40, 64])
        tree = {"bottom.bin": b"deep"}
        for lvl in range(depth):
            tree = {rnd.choice("abcde"): tree}
            if rnd.random() < 0.2:
                tree["side%d.txt" % lvl] = bytes([lvl])
    elif shape < 0.09:
        # one wide directory
        width = rnd.choice([40, 40, 70, 130])
        sub = {"n%03d" % i: (b"" if i % 3 else bytes([i & 0xFF])) for i in range(width)}
        sub["sub"] = {"x": b"x"}
        tree = {"wide": sub, "f": b"f"}
    return {
        "seed": seed,
        "kind": kind,
        "tree": tree,
        "srcname": rnd.choice(["src", "folder1", "a"]),
        "dest": dest,
        "write_into": write_into,
        "cwd": rnd.choice(["/", "/w", "/w/x"]),
        "block": rnd.choice([1, 7, 64, 8192]),
        "no_mlsx": rnd.random() < 0.35,
    }


def _kind_of(model, p):
    return None if p not in model else ("dir" if model[p] is None else "file")


def gen_sequence(seed):
    """3..7 high-level operations on ONE client connection, generated against a model of the
    remote tree so that every operation is well-defined (no file-over-directory collisions, the
    working directory is never removed)."""
    rnd = random.Random(seed * 5237 + 11)
    model = with_parents({"/w/x": None, "/w/keep.txt": b"keep", "/other/o": b"other"})
    cwd = "/"
    trees = [gen_tree(rnd) for _ in range(2)]
    names = ["src", "folder1"]
    ops = []

    def spell(pabs):
        if rnd.random() < 0.5 or cwd == "/":
            return pabs if rnd.random() < 0.5 or cwd != "/" else (pabs.lstrip("/") or "/")
        if pabs == cwd:
            return "."
        if pabs.startswith(cwd.rstrip("/") + "/"):
            return pabs[len(cwd.rstrip("/")) + 1 :]
        return pabs

    def respell(pabs, current):
        cands = {pabs, "/." + pabs, pabs + "/"}
        if cwd == "/":
            cands.add(pabs.lstrip("/"))
        elif pabs.startswith(cwd.rstrip("/") + "/"):
            cands.add(pabs[len(cwd.rstrip("/")) + 1 :])
            cands.add("./" + pabs[len(cwd.rstrip("/")) + 1 :])
        cands.discard(current)
        cands.discard("")
        return rnd.choice(sorted(cands))

    def place(i, dest_abs, wi):
        """model after upload(tree i, dest_abs, write_into=wi), or None if it would collide"""
        target = dest_abs if wi else dest_abs.rstrip("/") + "/" + names[i]
        placed = flatten(trees[i], target)
        allp = with_parents({**model, **placed})
        ok = all(_kind_of(model, k) in (None, "dir" if v is None else "file") for k, v in placed.items())
        ok = ok and all(_kind_of(model, k) in (None, "dir") for k in set(allp) - set(placed))
        return allp if ok else None

    if rnd.random() < 0.3:
        # the same *relative* destination used from two working directories on one connection
        # (a client that remembers which directories it has made must forget them on CWD)
        i = rnd.randrange(2)
        rel = rnd.choice(["up", "up/deep", "folder1", "d"])
        wi = rnd.random() < 0.5
        d1, d2 = rnd.sample(["/", "/w", "/w/x", "/other"], 2)
        for d in (d1, d2):
            if d != cwd:
                ops.append(["cd", d])
                cwd = d
            m2 = place(i, absolutize(cwd, rel), wi)
            if m2 is None:
                break
            ops.append(["upload", i, rel, wi])
            model = m2
    for _ in range(rnd.randint(3, 7)):
        x = rnd.random()
        dirs = sorted(k for k, v in model.items() if v is None)
        if x < 0.35:
            i = rnd.randrange(2)
            dest_abs = rnd.choice(dirs + ["/d", "/d/e", "/w/new"])
            wi = rnd.random() < 0.5
            target = dest_abs if wi else dest_abs.rstrip("/") + "/" + names[i]
            placed = flatten(trees[i], target)
            allp = with_parents({**model, **placed})
            ok = all(_kind_of(model, k) in (None, "dir" if v is None else "file") for k, v in placed.items())
            ok = ok and all(_kind_of(model, k) in (None, "dir") for k in set(allp) - set(placed))
            if not ok:
                continue
            sp = spell(dest_abs)
            ops.append(["upload", i, sp, wi])
            model = allp
            if rnd.random() < 0.35 and target != "/" and not (cwd == target or cwd.startswith(target.rstrip("/") + "/")):
                # churn: what was just placed is removed and placed again over the same connection
                tsp = sp if wi else (sp.rstrip("/") + "/" + names[i])
                y = rnd.random()
                if y < 0.25:
                    # ... by another session (nothing this client remembers may survive that)
                    ops.append(["xremove", target])
                elif y < 0.5:
                    # ... under another spelling of the same location
                    ops.append(["remove", respell(target, tsp), rnd.random() < 0.7])
                else:
                    ops.append(["remove", tsp, rnd.random() < 0.7])
                model = {k: v for k, v in model.items() if not (k == target or k.startswith(target.rstrip("/") + "/"))}
                ops.append(["upload", i, sp, wi])
                model = with_parents({**model, **placed})
        elif x < 0.6:
            cands = [k for k in model if k != "/" and not (cwd == k or cwd.startswith(k + "/"))]
            if not cands:
                continue
            pth = rnd.choice(sorted(cands))
            ops.append(["remove", spell(pth), rnd.random() < 0.5])
            model = {k: v for k, v in model.items() if not (k == pth or k.startswith(pth + "/"))}
        elif x < 0.75:
            base = rnd.choice(dirs)
            pth = base.rstrip("/") + "/" + rnd.choice(["m", "m/n", "d", "folder1"])
            if any(_kind_of(model, q) == "file" for q in with_parents({pth: None})):
                continue
            sp = spell(pth)
            ops.append(["mkdir", sp, rnd.random() < 0.5])
            if rnd.random() < 0.3 and pth not in model and not (cwd == pth or cwd.startswith(pth + "/")):
                y = rnd.random()
                if y < 0.25:
                    ops.append(["xremove", pth])
                elif y < 0.5:
                    ops.append(["remove", respell(pth, sp), rnd.random() < 0.7])
                else:
                    ops.append(["remove", sp, rnd.random() < 0.7])
                ops.append(["mkdir", sp, rnd.random() < 0.5])
            model = with_parents({**model, pth: None})
        elif x < 0.9:
            cwd = rnd.choice(dirs)
            ops.append(["cd", cwd])
        elif x < 0.95:
            ops.append(["list", spell(rnd.choice(dirs))])
        else:
            # the same relative name asked about from two working directories, nothing modified
            # in between (a client that remembers listings must forget them on CWD)
            name = rnd.choice(NAMES + names + ["keep.txt", "o", "x"])
            ops.append(["probe", name])
            cwd = rnd.choice(dirs)
            ops.append(["cd", cwd])
            ops.append(["probe", name])
            others = sorted(k for k in model if k not in ("/", cwd))  # (the LIST fallback cannot stat the root / "." itself)
            if others and rnd.random() < 0.5:
                ops.append(["probe", spell(rnd.choice(others))])
    return {"seed": seed, "kind": "sequence", "trees": trees, "names": names, "ops": ops, "block": rnd.choice([7, 64, 8192]), "no_mlsx": rnd.random() < 0.35, "tree": {}, "dest": "seq", "cwd": "/", "write_into": False, "srcname": "src"}


def gen_faulted(seed):
    """one operation with the k-th backend call of the server failing (EIO): the operation must
    either raise or have done exactly what it does without the fault"""
    c = gen_case(seed)
    rnd = random.Random(seed * 5237 + 17)
    c["kind"] = rnd.choice(["upload", "download", "remove", "remove", "list"])
    c["fault_k"] = rnd.randint(1, 25)
    return c


def gen_unreadable(seed):
    """download of a tree in which one listed entry may not be read: an identical copy is
    impossible, so the operation must fail - it must not return normally with an incomplete copy"""
    rnd = random.Random(seed * 5237 + 13)
    tree = gen_tree(rnd)
    flat = [k for k in flatten(tree, "/r/src") if k != "/r/src"]
    if not flat:
        tree = {"a": b"x"}
        flat = ["/r/src/a"]
    return {"seed": seed, "kind": "download_unreadable", "tree": tree, "deny": rnd.choice(sorted(flat)), "srcname": "src", "dest": "", "write_into": rnd.random() < 0.5, "cwd": "/", "block": 64, "no_mlsx": rnd.random() < 0.3}


class ShortReadMemoryPathIO(aioftp.MemoryPathIO):
    """local side of the client: read() returns "some data" - here at most 5 bytes at a time (a
    backend is free to do that: chunked storage, pipes, unbuffered files)"""

    @aioftp.pathio.universal_exception
    async def read(self, file, block_size=-1):
        if block_size is None or block_size < 0 or block_size > 5:
            block_size = 5
        return await super().read(file, block_size)


class NoMlsxServer(aioftp.Server):
    def __init__(self, *a, **kw):
        super().__init__(*a, **kw)
        del self.commands_mapping["mlsd"]
        del self.commands_mapping["mlst"]


def absolutize(cwd, p):
    pp = pathlib.PurePosixPath(p)
    if not pp.is_absolute():
        pp = pathlib.PurePosixPath(cwd) / pp
    return str(pp)


def run_case(case):
    rng = random.Random(case["seed"] * 7919 + 97)
    net = scenario.random_net(rng, allow_small_pipe=False)
    sc = {"seed": case["seed"], "net": net}
    viol = []
    info = {}
    world = scenario.setup_world(sc, max_steps=3_000_000)
    with world:
        scenario.apply_net(world.net, net)
        cls = NoMlsxServer if case.get("no_mlsx") else aioftp.Server
        spy = simfs.make_spy(aioftp.MemoryPathIO, world.fsctl)
        user = aioftp.User()
        if case["kind"] == "download_unreadable":
            user = aioftp.User(permissions=[aioftp.Permission("/"), aioftp.Permission(case["deny"], readable=False)])
        server = cls([user], path_io_factory=spy, block_size=64, wait_future_timeout=20.0)
        world.server = server
        world.backend_cls = spy
        short = (case["seed"] % 3 == 0)
        world.fsctl.short_reads = short  # the server's backend reads short as well
        client = aioftp.Client(path_io_factory=ShortReadMemoryPathIO if short else aioftp.MemoryPathIO)
        kind = case["kind"]
        cwd = case["cwd"]
        subject = f"{kind}:{'write_into' if case['write_into'] else 'default'}:{'list-fallback' if case.get('no_mlsx') else 'mlsd'}"
        tree = case["tree"]
        srcname = case["srcname"]

        def remote_snapshot():
            return {k: (None if v is None else bytes(v)) for k, v in world.snapshot().items()}

        def local_snapshot():
            return {k: (None if v is None else bytes(v)) for k, v in simfs.mem_snapshot(client.path_io.fs).items()}

        async def main():
            await server.start("127.0.0.1", 2121)
            # remote base content: the working directories and some bystanders
            remote0 = with_parents({"/w/x": None, "/w/keep.txt": b"keep", "/other/o": b"other", cwd: None})
            world.populate({k: v for k, v in remote0.items() if k != "/"})
            await client.connect("127.0.0.1", 2121)
            await client.login()
            await client.change_directory(cwd)
            before = remote_snapshot()

            def arm():
                if case.get("fault_k"):
                    world.fsctl.fail_at[world.fsctl.n + case["fault_k"]] = 5  # EIO

            if kind in ("upload", "upload_file"):
                # local tree under /local/<srcname>
                if kind == "upload":
                    local = with_parents(flatten(tree, "/local/" + srcname))
                    placed_src = tree
                else:
                    content = b"single file \x00\xff content"
                    local = with_parents({"/local/" + srcname: content})
                    placed_src = content
                simfs.mem_populate(client.path_io.fs, {k: v for k, v in local.items() if k != "/"})
                arm()
                try:
                    await client.upload("/local/" + srcname, case["dest"], write_into=case["write_into"], block_size=case["block"])
                except aioftp.StatusCodeError as e:
                    if not world.fsctl.faults_fired:
                        raise
                    info["refused_under_fault"] = str(e.received_codes)
                    await common.close_server(server)
                    return
                dest_abs = absolutize(cwd, case["dest"]) if case["dest"] else cwd
                target = dest_abs if case["write_into"] else (dest_abs.rstrip("/") + "/" + srcname)
                if kind == "upload":
                    placed = flatten(placed_src, target)
                else:
                    placed = {target: placed_src}
                want = with_parents({**before, **placed})
                got = remote_snapshot()
                if got != want:
                    miss = sorted(set(want) - set(got))[:4]
                    extra = sorted(set(got) - set(want))[:4]
                    diff = [k for k in want if k in got and got[k] != want[k]][:3]
                    viol.append({"clause": "upload-placed-elsewhere", "subject": subject, "detail": f"upload('/local/{srcname}', {case['dest']!r}, write_into={case['write_into']}) from cwd {cwd}: expected under {target!r}; missing {miss}, unexpected {extra}, different content {diff}"})
            elif kind == "sequence":
                model = dict(before)
                mcwd = "/"
                others = []
                for i, t in enumerate(case["trees"]):
                    simfs.mem_populate(client.path_io.fs, {k: v for k, v in with_parents(flatten(t, "/local/" + case["names"][i])).items() if k != "/"})
                for n, op in enumerate(case["ops"]):
                    what = None
                    if op[0] == "upload":
                        _, i, dest, wi = op
                        await client.upload("/local/" + case["names"][i], dest, write_into=wi, block_size=case["block"])
                        dest_abs = absolutize(mcwd, dest)
                        target = dest_abs if wi else dest_abs.rstrip("/") + "/" + case["names"][i]
                        model = with_parents({**model, **flatten(case["trees"][i], target)})
                        what = f"upload('/local/{case['names'][i]}', {dest!r}, write_into={wi})"
                    elif op[0] == "remove":
                        pabs = absolutize(mcwd, op[1])
                        await client.remove(op[1] if op[2] else pathlib.PurePosixPath(op[1]))
                        model = {k: v for k, v in model.items() if not (k == pabs or k.startswith(pabs.rstrip("/") + "/"))}
                        what = f"remove({op[1]!r} as {'str' if op[2] else 'PurePosixPath'})"
                    elif op[0] == "xremove":
                        if not others:
                            c2 = aioftp.Client(path_io_factory=aioftp.MemoryPathIO)
                            await c2.connect("127.0.0.1", 2121)
                            await c2.login()
                            others.append(c2)
                        pabs = op[1]
                        await others[0].remove(pabs)
                        model = {k: v for k, v in model.items() if not (k == pabs or k.startswith(pabs.rstrip("/") + "/"))}
                        what = f"remove({pabs!r}) by another session"
                    elif op[0] == "mkdir":
                        pabs = absolutize(mcwd, op[1])
                        await client.make_directory(op[1] if op[2] else pathlib.PurePosixPath(op[1]))
                        model = with_parents({**model, pabs: None})
                        what = f"make_directory({op[1]!r})"
                    elif op[0] == "cd":
                        await client.change_directory(op[1])
                        mcwd = op[1]
                        what = f"change_directory({op[1]!r})"
                    elif op[0] == "probe":
                        pabs = absolutize(mcwd, op[1])
                        got = (await client.exists(op[1]), await client.is_file(op[1]) if pabs in model else None, await client.is_dir(op[1]) if pabs in model else None)
                        want = (pabs in model, (model[pabs] is not None) if pabs in model else None, (model[pabs] is None) if pabs in model else None)
                        info["probes"] = info.get("probes", 0) + 1
                        if got != want:
                            viol.append({"clause": "stat-hits-another-object", "subject": "sequence", "detail": f"operation {n} exists/is_file/is_dir({op[1]!r}) from cwd {mcwd} after {case['ops'][:n]}: got {got}, the remote tree says {want}"})
                            break
                        continue
                    elif op[0] == "list":
                        pabs = absolutize(mcwd, op[1])
                        got = sorted(absolutize(mcwd, str(p)) for p, inf in await client.list(op[1], recursive=True))
                        want = sorted(k for k in model if k != pabs and k.startswith(pabs.rstrip("/") + "/"))
                        if got != want:
                            viol.append({"clause": "recursive-listing-differs", "subject": "sequence", "detail": f"operation {n} list({op[1]!r}, recursive=True) after {case['ops'][:n]}: missing {sorted(set(want) - set(got))[:4]}, unexpected {sorted(set(got) - set(want))[:4]}"})
                        continue
                    got = remote_snapshot()
                    if got != model:
                        miss = sorted(set(model) - set(got))[:4]
                        extra = sorted(set(got) - set(model))[:4]
                        diff = [k for k in model if k in got and got[k] != model[k]][:3]
                        viol.append({"clause": "sequence-diverged", "subject": op[0], "detail": f"operation {n} {what} on the same connection after {case['ops'][:n]} (cwd {mcwd}): remote tree missing {miss}, unexpected {extra}, different content {diff}"})
                        break
                info["seq_ops"] = len(case["ops"])
                for c2 in others:
                    await c2.quit()
            elif kind == "download_unreadable":
                remote = with_parents(flatten(tree, "/r/src"))
                world.populate({k: v for k, v in remote.items() if k not in before and k != "/"})
                simfs.mem_populate(client.path_io.fs, {"/ldst": None})
                lbefore = local_snapshot()
                try:
                    await client.download("/r/src", "/ldst", write_into=case["write_into"], block_size=case["block"])
                    info["returned"] = True
                except aioftp.StatusCodeError as e:
                    info["returned"] = False
                    info["refused"] = str(e.received_codes)
                if info["returned"]:
                    target = "/ldst" if case["write_into"] else "/ldst/src"
                    want = with_parents({**lbefore, **flatten(tree, target)})
                    got = local_snapshot()
                    if got != want:
                        viol.append({"clause": "download-incomplete-without-error", "subject": subject, "detail": f"download('/r/src') with {case['deny']!r} unreadable returned normally, local copy lacks {sorted(set(want) - set(got))[:4]}"})
            elif kind in ("download", "download_file", "list", "remove"):
                rsrc = "/r/" + srcname
                if kind == "download_file":
                    content = b"remote single \x00 file"
                    remote = with_parents({rsrc: content})
                else:
                    remote = with_parents(flatten(tree, rsrc))
                world.populate({k: v for k, v in remote.items() if k not in before and k != "/"})
                before = remote_snapshot()
                # address the source relative to the working directory when possible
                src_arg = rsrc if rng.random() < 0.5 else str(pathlib.PurePosixPath(*([".."] * (len([p for p in cwd.split("/") if p])))) / rsrc.lstrip("/")) if cwd != "/" else rsrc.lstrip("/")
                if kind in ("download", "download_file"):
                    ldest = "/ldst/" + case["dest"].strip("/") if case["dest"] not in ("", "/") else "/ldst"
                    simfs.mem_populate(client.path_io.fs, {"/ldst": None})
                    lbefore = local_snapshot()
                    arm()
                    try:
                        await client.download(src_arg, ldest, write_into=case["write_into"], block_size=case["block"])
                    except aioftp.StatusCodeError as e:
                        if not world.fsctl.faults_fired:
                            raise
                        info["refused_under_fault"] = str(e.received_codes)
                        await common.close_server(server)
                        return
                    target = ldest if case["write_into"] else ldest.rstrip("/") + "/" + srcname
                    placed = flatten(tree, target) if kind == "download" else {target: content}
                    want = with_parents({**lbefore, **placed})
                    got = local_snapshot()
                    if got != want:
                        miss = sorted(set(want) - set(got))[:4]
                        extra = sorted(set(got) - set(want))[:4]
                        diff = [k for k in want if k in got and got[k] != want[k]][:3]
                        viol.append({"clause": "download-placed-elsewhere", "subject": subject, "detail": f"download({src_arg!r}, {ldest!r}, write_into={case['write_into']}) from cwd {cwd}: expected under {target!r}; missing {miss}, unexpected {extra}, different content {diff}"})
                    if remote_snapshot() != before:
                        viol.append({"clause": "download-changed-remote", "subject": subject, "detail": "the remote tree changed during a download"})
                elif kind == "list":
                    arm()
                    try:
                        got = [str(p) for p, inf in await client.list(src_arg, recursive=True)]
                    except aioftp.StatusCodeError as e:
                        if not world.fsctl.faults_fired:
                            raise
                        info["refused_under_fault"] = str(e.received_codes)
                        await common.close_server(server)
                        return
                    world.fsctl.fail_at.clear()
                    base = pathlib.PurePosixPath(src_arg)
                    want = sorted(str(base / pathlib.PurePosixPath(k).relative_to(rsrc)) for k in flatten(tree, rsrc) if k != rsrc)
                    if sorted(got) != want:
                        miss = sorted(set(want) - set(got))[:4]
                        extra = sorted(set(got) - set(want))[:4]
                        dup = sorted(set(x for x in got if got.count(x) > 1))[:3]
                        viol.append({"clause": "recursive-listing-differs", "subject": subject, "detail": f"list({src_arg!r}, recursive=True) from cwd {cwd}: missing {miss}, unexpected {extra}, duplicated {dup}"})
                    types = {str(p): inf.get("type") for p, inf in await client.list(src_arg, recursive=True)}
                    for k, v in flatten(tree, rsrc).items():
                        if k == rsrc:
                            continue
                        key = str(base / pathlib.PurePosixPath(k).relative_to(rsrc))
                        if key in types and types[key] != ("dir" if v is None else "file"):
                            viol.append({"clause": "recursive-listing-differs", "subject": subject, "detail": f"{key}: type {types[key]}"})
                else:
                    arm()
                    try:
                        await client.remove(src_arg)
                    except aioftp.StatusCodeError as e:
                        if not world.fsctl.faults_fired:
                            raise
                        info["refused_under_fault"] = str(e.received_codes)
                        await common.close_server(server)
                        return
                    want = {k: v for k, v in before.items() if not (k == rsrc or k.startswith(rsrc + "/"))}
                    got = remote_snapshot()
                    if got != want:
                        miss = sorted(set(want) - set(got))[:4]
                        extra = sorted(set(got) - set(want))[:4]
                        viol.append({"clause": "remove-removed-something-else", "subject": subject, "detail": f"remove({src_arg!r}) from cwd {cwd}: wrongly removed {miss}, left behind {extra}"})
            await client.quit()
            await asyncio.sleep(1)
            await common.close_server(server)

        world.run(main())
        gc.collect()
        if world.outcome not in ("ok", "budget", "deadlock"):
            err = world.error
            if isinstance(err, (aioftp.StatusCodeError, ValueError, KeyError, aioftp.PathIOError)):
                viol.append({"clause": "operation-failed", "subject": subject, "detail": f"{kind} raised {err!r}"[:400]})
            else:
                raise common.HarnessError(f"scenario failed: {world.outcome}: {world.error!r}")
        seen = set()
        out = []
        for v in viol:
            key = (v["clause"], v["subject"])
            if key not in seen:
                seen.add(key)
                out.append(v)
        res = {
            "digest": world.digest(repr(case["tree"]) + case["dest"] + case["cwd"]),
            "nontrivial": True,
            "vtime": world.loop.time() - 1000.0,
            "events": world.net.seq,
            "steps": world.loop.steps,
            "outcome": world.outcome,
            "counters": {f"kind.{kind}": 1, "probe.operations_in_one_connection_sequences": info.get("seq_ops", 0), "probe.download_refused_for_unreadable_entry": int(info.get("returned") is False), "probe.stat_probes_in_sequences": info.get("probes", 0), "faults.backend_call_failed_during_operation": len(world.fsctl.faults_fired), "probe.backends_with_short_reads": int(short), "probe.operation_raised_under_fault": int("refused_under_fault" in info)},
            "groups": {"dest": {case["dest"] or "''": 1}, "cwd": {cwd: 1}},
            "violations": out,
        }
        if case.get("want_sample"):
            res["sample"] = {"case": case}
    return res


def confirm(case, violation):
    r = run_case(case)
    return any(v["clause"] == violation["clause"] and v["subject"] == violation["subject"] for v in r["violations"])


def minimise(case, violation):
    import copy

    def bad(c):
        try:
            r = run_case(c)
        except Exception:
            return False
        return any(v["clause"] == violation["clause"] and v["subject"] == violation["subject"] for v in r["violations"])

    cur = copy.deepcopy(case)
    cur.pop("want_sample", None)
    if cur.get("kind") == "sequence":
        i = len(cur["ops"]) - 1
        while i >= 0:
            trial = copy.deepcopy(cur)
            del trial["ops"][i]
            if bad(trial):
                cur = trial
            i -= 1
        return cur, violation

    def shrink(t):
        # try removing each entry, recursively
        changed = True
        while changed:
            changed = False
            for k in list(t):
                saved = t.pop(k)
                if bad(cur):
                    changed = True
                    continue
                t[k] = saved
                if isinstance(saved, dict):
                    shrink(saved)
                elif saved:
                    t[k] = b""
                    if not bad(cur):
                        t[k] = saved

    shrink(cur["tree"])
    for key, val in (("cwd", "/"), ("block", 8192)):
        if cur[key] != val:
            trial = copy.deepcopy(cur)
            trial[key] = val
            if bad(trial):
                cur = trial
    return cur, violation


def selftest_cases(n):
    return [gen_case(150_000 + i) for i in range(n)] + [gen_sequence(151_000 + i) for i in range(n // 3)] + [gen_unreadable(152_000 + i) for i in range(n // 10)] + [gen_faulted(153_000 + i) for i in range(n // 5)]


def main(argv=None):
    a = common.tier_and_seed(argv)
    if a.replay:
        import json

        doc = json.load(open(a.replay))
        c = doc["case"]
        c["tree"] = _untree(c["tree"])
        if "trees" in c:
            c["trees"] = [_untree(t) for t in c["trees"]]
        r = run_case(c)
        hit = [v for v in r["violations"] if v["clause"] == doc["clause"]]
        if hit:
            print(f"reproduced: {hit[0]}")
            print(f"VIOLATION property={PROP} replay={a.replay}")
            return 1
        print("not reproduced")
        return 0
    quick = a.tier == "quick"
    ev = common.Evidence(PROP, a.tier, a.seed, "exploration", "generated trees (depth <= 3, fan-out <= 3, empty directories, empty files, repeated names; one in twenty a chain 12..64 levels deep, one in twenty-five a directory with 40..130 entries) x operation {upload dir, upload file, download dir, download file, recursive list, recursive remove} x destination {'', 1..3 components, absolute, '/'} x write_into x working directory {/, /w, /w/x} x block size x {MLSD server, LIST-fallback server}; remote / local trees are compared byte for byte with the tutorial's placement rule; non-trivial = every run; distinct = distinct run digests One case in five is a sequence of 3..7 operations on one connection checked against a model of the remote tree; one in ten downloads a tree with an unreadable entry.")
    rep = common.Reporter(PROP, ev)
    deadline = time.time() + (a.budget or (60 if quick else 1200))
    n = 3000 if quick else 400000
    with common.Pool() as pool:
        def gen():
            for i in range(n):
                sd = a.seed * 1_000_000 + i
                if i % 5 == 3:
                    yield gen_sequence(sd)
                elif i % 10 == 7:
                    yield gen_unreadable(sd)
                elif i % 10 in (1, 6):
                    yield gen_faulted(sd)
                else:
                    yield gen_case(sd)

        cases = common.with_samples(gen(), 2)
        for case, res in pool.map(run_case, cases, deadline=deadline, chunksize=8):
            ev.add_run(res)
            for v in res["violations"]:
                rep.add(case, v)
        ev.assumptions = ["the placement rule is the one of docs/client_tutorial.rst: destination/source-name/... by default, destination/... with write_into", "no fault is injected: the statement quantifies over inputs and configurations"]
        code = rep.finish(minimise=minimise, confirm=confirm)
    ev.write()
    print(f"{PROP}: {ev.evaluations} runs, {len(ev.nontrivial_digests)} distinct non-trivial, {ev.violations} violation classes, exit {code}")
    return code


def _untree(t):
    """replay files store bytes as latin-1 strings"""
    out = {}
    for k, v in t.items():
        out[k] = _untree(v) if isinstance(v, dict) else (v.encode("latin-1") if isinstance(v, str) else v)
    return out
