"""C20 - passwords never reach the logs.

Handlers at DEBUG on 'aioftp.client', 'aioftp.server', 'asyncio' and the root logger; seeded
login histories over several concurrent sessions: the real client's login() (matching and
mismatching encodings), raw peers spelling the verb pass / PASS / PaSs, PASS without USER,
PASS after login, wrong password, unknown user, per-user connection limits reached, a
session cut right after PASS; under seeded segmentation.  Passwords are long random tokens
(variants: inner / leading blanks, '%s' / '%(x)s' / '%d' directives, non-ASCII, a single
unusual character).  Oracle: no formatted record (message + traceback), no record argument
and nothing the event loop's exception handler saw contains a supplied password (or its
stripped form, or its byte escapes); revealing its length is allowed.
"""

from __future__ import annotations

import asyncio
import gc
import logging
import random
import string
import time

from checks import common
from simftp import scenario
from simftp.peers import PeerGone, RawPeer, ReplyTimeout
from simftp.world import aioftp

PROP = "C20"
FMT = logging.Formatter("%(name)s %(levelname)s %(message)s")


def gen_password(rnd, allow_long=False):
    core = "".join(rnd.choice(string.ascii_letters + string.digits) for _ in range(rnd.randint(8, 14)))
    if allow_long and rnd.random() < 0.025:
        # longer than the stream reader's line limit (64 KiB): the PASS line reaches the server in
        # several segments and overflows its buffer before the terminator arrives
        n = rnd.choice([65530, 65600, 70000, 140000])
        toks = []
        total = 0
        while total < n:
            t = format(rnd.getrandbits(200), "x").swapcase() if len(toks) % 2 else format(rnd.getrandbits(200), "x")
            toks.append(t)
            total += len(t) + 1
        return rnd.choice(["", " "]).join(toks)[:n]
    k = rnd.random()
    if k < 0.35:
        return core
    if k < 0.45:
        return core[:5] + " " + core[5:]
    if k < 0.52:
        return " " + core
    if k < 0.62:
        return core + rnd.choice(["%s", "%(x)s", "%d", "%", "%%s", "{0}", "{}"]) + core[:3]
    if k < 0.75:
        return core[:4] + rnd.choice(["ä", "ß", "é", "ñ"]) + core[4:]
    if k < 0.82:
        return core[:4] + rnd.choice(["ж", "中", "🙂"]) + core[4:]
    if k < 0.88:
        return rnd.choice(["¶", "§", "¤"])  # one unusual character that occurs nowhere else
    return core + "PASS " + core[:3]


def gen_case(seed):
    rnd = random.Random(seed * 2003 + 12)
    users = []
    for name in ("alice", "bob"):
        users.append({"login": name, "password": gen_password(rnd, allow_long=True), "maximum_connections": rnd.choice([None, None, 1, 2])})
    users.append({"login": None})
    sessions = []
    for i in range(rnd.randint(1, 5)):
        who = rnd.choice(["alice", "bob", "alice", "ghost", "anonymous"])
        kind = rnd.choice(["client", "client", "raw", "raw", "raw"])
        pw_kind = rnd.choice(["right", "right", "wrong", "right"])
        s = {"kind": kind, "user": who, "pw": pw_kind, "wrong": gen_password(rnd, allow_long=True), "start": rnd.choice([0.0, 0.0, 0.01, 0.2]), "hold": rnd.random() < 0.5}
        if kind == "raw":
            s["verb"] = rnd.choice(["PASS", "pass", "PaSs", "Pass", "pAsS"])
            s["order"] = rnd.choice(["normal", "normal", "pass-first", "pass-twice", "pass-after-login", "cut-after-pass", "double-space", "pipelined-login", "pass-behind-pasv", "pipelined-then-cut", "user-quit-pass", "pass-unterminated"])
        else:
            s["client_encoding"] = rnd.choice(["utf-8", "utf-8", "latin-1"])
            s["client_socket_timeout"] = rnd.choice([None, None, 0.05, 0.15])
        sessions.append(s)
    case = {"seed": seed, "users": users, "sessions": sessions, "server_encoding": rnd.choice(["utf-8", "utf-8", "latin-1"]), "user_manager": rnd.choice(["memory", "memory", "slow", "digest"])}
    # sessions that stay silent for two seconds after their login are dropped by an idle timeout
    # in some runs: one more login outcome, and one more occasion to log who was dropped
    case["idle_timeout"] = rnd.choice([None, None, 0.5, 1.5])
    case["socket_timeout"] = rnd.choice([None, None, 0.7])
    return case


def needles(pw):
    if len(pw) > 200:
        # a long password: any 16 consecutive characters give it away (head, tail, a window
        # every 4093 characters and a dense set near the end - what is left of a line cut at the
        # reader's 64 KiB limit is its tail)
        out = {pw[:16], pw[-16:]}
        for i in range(0, len(pw) - 16, 4093):
            out.add(pw[i : i + 16])
        for i in range(len(pw) - 16, max(0, len(pw) - 6000), -251):
            out.add(pw[i : i + 16])
        out |= {n.lower() for n in out} | {n.strip() for n in out}
        return {n for n in out if len(n) >= 12}
    out = {pw}
    if pw.strip() and pw.strip() != pw:
        out.add(pw.strip())
    for enc in ("utf-8", "latin-1"):
        try:
            b = pw.encode(enc)
        except UnicodeEncodeError:
            continue
        if not pw.isascii():
            out.add(repr(b)[2:-1])  # byte escapes as they would show up in a repr()
            try:
                out.add(b.decode("latin-1"))  # mojibake form
            except Exception:
                pass
    return {n for n in out if n}


def run_case(case):
    rng = random.Random(case["seed"] * 7919 + 107)
    long_pw = any(len(u.get("password") or "") > 200 for u in case["users"]) or any(len(x.get("wrong") or "") > 200 for x in case["sessions"])
    net = scenario.random_net(rng, allow_small_pipe=not long_pw)
    if long_pw and net.get("seg_mode") == "dribble":
        net["seg_mode"] = "mss"
    sc = {"seed": case["seed"], "server": {"users": case["users"], "encoding": case["server_encoding"], "wait_future_timeout": 1.0, "user_manager": case.get("user_manager"), "idle_timeout": case.get("idle_timeout"), "socket_timeout": case.get("socket_timeout")}, "net": net, "fs": {"delay": None}}
    viol = []
    supplied = []  # every password string any peer supplied
    info = {"logins": 0}
    world = scenario.setup_world(sc, log_level=logging.DEBUG)
    root_records = []

    class RootCapture(logging.Handler):
        def emit(self, record):
            root_records.append(record)

    rc = RootCapture(level=logging.DEBUG)
    rootlogger = logging.getLogger()
    old_level = rootlogger.level
    with world:
        rootlogger.addHandler(rc)
        rootlogger.setLevel(logging.DEBUG)
        try:
            server = scenario.finish_setup(world, sc)
            pw_of = {u["login"]: u.get("password") for u in case["users"]}

            async def client_session(i, s):
                if s["start"]:
                    await asyncio.sleep(s["start"])
                pw = pw_of.get(s["user"]) if s["pw"] == "right" and pw_of.get(s["user"]) else s["wrong"]
                supplied.append(pw)
                c = aioftp.Client(path_io_factory=aioftp.MemoryPathIO, encoding=s["client_encoding"], socket_timeout=s.get("client_socket_timeout"))
                try:
                    await c.connect("127.0.0.1", 2121)
                    await c.login(s["user"], pw)
                    info["logins"] += 1
                    if s["hold"]:
                        await asyncio.sleep(2.0)
                    await c.quit()
                except (aioftp.StatusCodeError, ConnectionError, UnicodeError, asyncio.TimeoutError) as e:
                    c.close()

            async def raw_session(i, s):
                if s["start"]:
                    await asyncio.sleep(s["start"])
                pw = pw_of.get(s["user"]) if s["pw"] == "right" and pw_of.get(s["user"]) else s["wrong"]
                supplied.append(pw)
                p = RawPeer(world, f"s{i}", reply_timeout=50.0, encoding=case["server_encoding"])
                try:
                    await p.connect()
                    order = s["order"]
                    sep = "  " if order == "double-space" else " "
                    if order == "pass-unterminated":
                        # the PASS line never gets its CR LF: the peer half-closes (or dies) first
                        await p.cmd("USER " + s["user"])
                        p.note("C", s["verb"] + sep + pw + " <no CRLF>")
                        p.writer.write((s["verb"] + sep + pw).encode(case["server_encoding"], "replace"))
                        info["logins"] += 1
                        await asyncio.sleep(0.01)
                        if s.get("hold"):
                            p.writer.write_eof()
                            try:
                                await p.reply(5.0)
                            except (PeerGone, ReplyTimeout):
                                pass
                        p.close()
                        return
                    if order in ("pipelined-then-cut", "user-quit-pass"):
                        # the PASS line has been read by the server but is still waiting its turn
                        # when the session ends (peer gone, or a QUIT queued in front of it)
                        burst = ["USER " + s["user"], s["verb"] + sep + pw] if order == "pipelined-then-cut" else ["USER " + s["user"], "QUIT", s["verb"] + sep + pw]
                        for line in burst:
                            p.note("C", line)
                        p.writer.write("".join(line + "\r\n" for line in burst).encode(case["server_encoding"], "replace"))
                        info["logins"] += 1
                        if order == "pipelined-then-cut":
                            await asyncio.sleep(world.rng("c20cut").choice([0.0, 0.0005, 0.003, 0.05]))
                            p.vanish("rst")
                            return
                        try:
                            while True:
                                await p.reply(5.0)
                        except (PeerGone, ReplyTimeout):
                            pass
                        p.close()
                        return
                    if order in ("pipelined-login", "pass-behind-pasv"):
                        # the PASS line is read while another command of the session is still
                        # being handled (USER inside a suspending user manager; PASV opening its
                        # listener)
                        if order == "pipelined-login":
                            burst = ["USER " + s["user"], s["verb"] + sep + pw]
                        else:
                            await p.cmd("USER anonymous")
                            burst = ["EPSV", s["verb"] + sep + pw, "PASV", s["verb"] + sep + pw]
                        for line in burst:
                            p.note("C", line)
                        p.writer.write("".join(line + "\r\n" for line in burst).encode(case["server_encoding"], "replace"))
                        info["logins"] += 1
                        for _ in burst:
                            await p.reply(50.0)
                        await p.cmd("QUIT")
                        p.close()
                        return
                    if order == "pass-first":
                        await p.cmd(s["verb"] + sep + pw)
                    await p.cmd("USER " + s["user"])
                    await p.cmd(s["verb"] + sep + pw)
                    info["logins"] += 1
                    if order == "pass-twice":
                        await p.cmd(s["verb"] + sep + pw)
                    if order == "pass-after-login":
                        await p.cmd("PWD")
                        await p.cmd(s["verb"] + sep + pw)
                    if order == "cut-after-pass":
                        await p.send(s["verb"] + sep + pw)
                        p.vanish("rst")
                        return
                    if s["hold"]:
                        await asyncio.sleep(2.0)
                    await p.cmd("QUIT")
                except (PeerGone, ReplyTimeout, ConnectionError, UnicodeError):
                    pass
                p.close()

            async def main():
                await server.start("127.0.0.1", 2121)
                tasks = []
                for i, s in enumerate(case["sessions"]):
                    fn = client_session if s["kind"] == "client" else raw_session
                    tasks.append(world.spawn(fn(i, s), f"s{i}"))
                await asyncio.wait(tasks)
                for t in tasks:
                    if t.exception() is not None:
                        raise t.exception()
                await asyncio.sleep(5)
                await common.close_server(server)

            world.run(main())
            gc.collect()
        finally:
            rootlogger.removeHandler(rc)
            rootlogger.setLevel(old_level)
        if world.outcome not in ("ok", "budget", "deadlock"):
            raise common.HarnessError(f"scenario failed: {world.outcome}: {world.error!r}")
        records = list(world.log_records()) + root_records
        texts = []
        for r in records:
            try:
                t = FMT.format(r)
            except Exception as e:
                t = f"{r.name} <unformattable {e!r}> {r.msg!r} {r.args!r}"
            texts.append((r, t + " ARGS=" + repr(r.args)))
        for e in world.loop.exc_log:
            texts.append((None, f"loop-exception-handler {e['message']} {e['exception']}"))
        # a 1-character password is only meaningful if the character occurs nowhere else
        all_other = " ".join(u["login"] or "" for u in case["users"])
        haystack = "\x00".join(t for _, t in texts)
        for pw in set(supplied):
            for nd in needles(pw):
                if len(nd) < 4 and not all(ord(ch) > 127 for ch in nd):
                    continue
                if nd not in haystack:
                    continue
                for r, t in texts:
                    if nd in t:
                        who = r.name if r is not None else "loop"
                        where = "exception" if (r is not None and r.exc_info) else "message"
                        viol.append({"clause": "password-in-log", "subject": f"{who}:{where}", "detail": f"password {pw!r} (as {nd!r}) appears in a {who} record: {t[:300]!r}"})
                        break
        seen = set()
        out = []
        for v in viol:
            key = (v["clause"], v["subject"])
            if key not in seen:
                seen.add(key)
                out.append(v)
        res = {
            "digest": world.digest(repr(sorted(supplied))),
            "nontrivial": info["logins"] > 0 and len(records) > 4,
            "vtime": world.loop.time() - 1000.0,
            "events": world.net.seq,
            "steps": world.loop.steps,
            "outcome": world.outcome,
            "counters": {"log_records_inspected": len(records), "passwords_supplied": len(supplied), "faults.cut_after_pass": sum(1 for s in case["sessions"] if s.get("order") == "cut-after-pass"), "probe.user_limit_configured": sum(1 for u in case["users"] if u.get("maximum_connections")), "probe.idle_timeout_configured_and_a_session_held": int(bool(case.get("idle_timeout")) and any(s.get("hold") for s in case["sessions"]))},
            "violations": out,
        }
        if case.get("want_sample"):
            res["sample"] = {"case": case, "some_records": [t for _, t in texts[:12]]}
    return res


def confirm(case, violation):
    r = run_case(case)
    return any(v["clause"] == violation["clause"] and v["subject"] == violation["subject"] for v in r["violations"])


def minimise(case, violation):
    import copy

    def bad(c):
        try:
            r = run_case(c)
        except Exception:
            return False
        return any(v["clause"] == violation["clause"] and v["subject"] == violation["subject"] for v in r["violations"])

    cur = copy.deepcopy(case)
    cur.pop("want_sample", None)
    i = len(cur["sessions"]) - 1
    while i >= 0 and len(cur["sessions"]) > 1:
        trial = copy.deepcopy(cur)
        del trial["sessions"][i]
        if bad(trial):
            cur = trial
        i -= 1
    return cur, violation


def selftest_cases(n):
    return [gen_case(170_000 + i) for i in range(n)]


def main(argv=None):
    a = common.tier_and_seed(argv)
    if a.replay:
        import json

        doc = json.load(open(a.replay))
        r = run_case(doc["case"])
        hit = [v for v in r["violations"] if v["clause"] == doc["clause"]]
        if hit:
            print(f"reproduced: {hit[0]}")
            print(f"VIOLATION property={PROP} replay={a.replay}")
            return 1
        print("not reproduced")
        return 0
    quick = a.tier == "quick"
    ev = common.Evidence(PROP, a.tier, a.seed, "exploration", "seeded login histories: 1..5 concurrent sessions (real client login() with matching / mismatching encodings; raw peers with verb spellings pass/PASS/PaSs, PASS first / twice / after login / followed by a reset, double separator), right and wrong passwords, unknown users, per-user connection limits; password strings from long random tokens with blanks, format directives, non-ASCII and single unusual characters; all records of aioftp.client / aioftp.server / asyncio / root at DEBUG (formatted message + traceback + args) and the loop's exception handler are searched for every supplied password and its variants; non-trivial = at least one PASS was sent and records were captured; distinct = distinct run digests About a tenth of the cases contain a password longer than the 64 KiB line limit.")
    rep = common.Reporter(PROP, ev)
    deadline = time.time() + (a.budget or (60 if quick else 1200))
    n = 4000 if quick else 500000
    with common.Pool() as pool:
        cases = common.with_samples((gen_case(a.seed * 1_000_000 + i) for i in range(n)), 2)
        for case, res in pool.map(run_case, cases, deadline=deadline, chunksize=8):
            ev.add_run(res)
            for v in res["violations"]:
                rep.add(case, v)
        ev.assumptions = ["only records emitted by aioftp.client / aioftp.server / asyncio (and whatever reaches the root logger) are inspected, not what an application does with the exceptions it receives", "needles: the password, its stripped form and, for non-ASCII passwords, its utf-8 / latin-1 byte escapes and mojibake form; needles shorter than 4 ASCII characters are not searched (they occur by chance)"]
        code = rep.finish(minimise=minimise, confirm=confirm)
    ev.write()
    print(f"{PROP}: {ev.evaluations} runs, {len(ev.nontrivial_digests)} distinct non-trivial, {ev.violations} violation classes, exit {code}")
    return code
