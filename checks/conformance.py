"""Conformance self-test of the simulator: the corpus scripts are run (a) on the simulated
loop / network and (b) on the stock asyncio selector loop over real 127.0.0.1 sockets,
against the same real aioftp.Server on MemoryPathIO, with the same raw peer code.  The
reply-code transcripts, transferred bytes and final trees must be identical.  A difference
means the simulator (or the peer code) misrepresents what a real deployment does: harness
error (exit 2), never a pass.

usage: run.py conformance
"""

from __future__ import annotations

import asyncio
import sys

from checks.c13 import essence, _j
from simftp import corpus, fs as simfs, scenario
from simftp.world import aioftp

B = 16


def sim_run(name):
    S = corpus.scripts(B)
    script = [list(op) for op in S[name]]
    if script[-1][0] != "quit":
        script.append(["quit"])
    sc = {
        "seed": 1,
        "server": {"block_size": B, "wait_future_timeout": 2.0, "users": corpus.USERS},
        "net": {"latency": [0.0005, 0.001], "seg_mode": "whole"},
        "fs": {"delay": None, "tree": corpus.tree("/s0", B)},
        "sessions": [{"label": "s0", "script": script, "prefix": "/s0", "data_timeout": 20.0, "reply_timeout": 20.0}],
        "settle": 5.0,
        "final_close": True,
    }
    marks = {}

    def inspect(world, obs, phase):
        if phase == "settled":
            marks["snap"] = {k: (None if v is None else bytes(v)) for k, v in world.snapshot().items()}

    obs = scenario.run_scenario(sc, inspect=inspect)
    if obs.outcome != "ok":
        raise RuntimeError(f"sim run of {name} failed: {obs.outcome} {obs.error!r}")
    return _j(essence(obs.sessions["s0"])), marks["snap"]


class _FsCtl:
    def __init__(self):
        self.per_label = {}
        self.enabled = True


class _RealWorld:
    """just enough of simftp.world.World for RawPeer / run_script on a real loop"""

    def __init__(self, loop, server):
        self.loop = loop
        self.server = server
        self.fsctl = _FsCtl()


def real_run(name):
    S = corpus.scripts(B)
    script = [list(op) for op in S[name]]
    if script[-1][0] != "quit":
        script.append(["quit"])

    async def main():
        users = scenario.build_users(corpus.USERS)
        server = aioftp.Server(users, path_io_factory=aioftp.MemoryPathIO, block_size=B, wait_future_timeout=2.0)
        await server.start("127.0.0.1", 0)
        tree = {k: (None if v is None else scenario.payload(k, v)) for k, v in corpus.tree("/s0", B).items()}
        inst = server.path_io_factory(timeout=None, connection=None)
        simfs.mem_populate(server.path_io_factory.state, tree)
        world = _RealWorld(asyncio.get_running_loop(), server)
        so = scenario.SessionObs("s0")
        sess = {"label": "s0", "script": script, "prefix": "/s0", "data_timeout": 20.0, "reply_timeout": 20.0}
        await asyncio.wait_for(scenario.run_script(world, sess, so, ("127.0.0.1", server.server_port)), 60)
        await asyncio.sleep(0.05)
        snap = {k: (None if v is None else bytes(v)) for k, v in simfs.mem_snapshot(server.path_io_factory.state).items()}
        await server.close()
        return _j(essence(so)), snap

    loop = asyncio.new_event_loop()
    try:
        loop.set_exception_handler(lambda l, c: None)  # the 3.12.1 StreamReaderProtocol artefact
        return loop.run_until_complete(main())
    finally:
        loop.close()


def main(argv=None):
    names = sorted(n for n in corpus.scripts(B) if n not in ("no_dconn",))
    bad = 0
    for n in names:
        try:
            a_ess, a_tree = sim_run(n)
            b_ess, b_tree = real_run(n)
        except Exception as e:
            print(f"{n}: ERROR {e!r}")
            bad += 1
            continue
        ok = a_ess == b_ess and a_tree == b_tree
        print(f"{n}: {'same' if ok else 'DIFFERENT'} ({len(a_ess)} ops)")
        if not ok:
            bad += 1
            for i, (x, y) in enumerate(zip(a_ess, b_ess)):
                if x != y:
                    print(f"   op {i}: sim {x}  real {y}")
                    break
            if a_tree != b_tree:
                print(f"   trees differ: only sim {sorted(set(a_tree) - set(b_tree))[:3]} only real {sorted(set(b_tree) - set(a_tree))[:3]}")
    print(f"conformance: {len(names)} scripts, {bad} differences")
    return 2 if bad else 0


if __name__ == "__main__":
    sys.exit(main())
