"""C16 - configured timeouts bound how long a stalled peer can hold a session.

Kinds of run (all in virtual time, timestamps taken at the wire):

  silent  - a corpus script; at network event k the peer stops sending for good (script
            cancelled, client->server control pipe frozen so that partial lines in
            flight never arrive); open data connections keep being drained.  Expected:
            control closed by the server at exactly T_line + idle_timeout (T_line = delivery
            of the last complete command line / accept), never otherwise.
  nodata  - transfer command, data connection never made: 425 submitted within
            [T_cmd + wait, T_cmd + wait + sigma], no success reply, PWD answered; then
            silence -> idle close -> full clean-up.
  stall   - RETR with the server->client data pipe frozen at event k (server blocks in
            drain()), or STOR where the peer stops sending after chunk j: data
            connection closed by the server within [last movement + socket_timeout, + sigma].
  chatty  - a command every 0.9*idle for many rounds, also during a slow transfer: the
            session is never dropped.

sigma = backend delays the run itself injected after the reference instant.
After each release the C12 ledger must be clean and Server.close() must complete.
"""

from __future__ import annotations

import asyncio
import gc
import random
import time

from checks import common
from simftp import core, corpus, scenario
from simftp.peers import PeerGone, RawPeer, ReplyTimeout
from simftp.world import SESSION

PROP = "C16"
EPS = 1e-6
TVALS = [None, 0.7, 3.0, 11.0]


def _net(case, rng):
    # a very slow network would let socket_timeout (the control channel's write timeout)
    # expire legitimately while a reply crawls out: keep the pipes wide here and make
    # only the stalled data connection narrow (per-connection override in run_stall)
    net = scenario.random_net(rng, allow_small_pipe=False)
    if net["latency"][1] > 0.02:
        net["latency"] = [0.01, 0.02]
    if case.get("net"):
        net.update(case["net"])
    return net


def _server_spec(case, B):
    return {"block_size": B, "idle_timeout": case.get("idle"), "socket_timeout": case.get("sock"), "wait_future_timeout": case.get("wait"), "users": corpus.USERS}


class Wire:
    """Wire-level observations for one run."""

    def __init__(self, world, server_port=2121):
        self.world = world
        self.port = server_port
        self.line_times = {}  # conn id -> [vtime of each LF delivered to the server on a control conn]
        self.byte_times = {}  # conn id -> vtime of the last byte delivered to the server
        self.data_in = {}  # data conn id -> last delivery to the server
        self.srv_writes = {}  # conn id -> [(vtime, bytes)] written by the server
        world.net.deliver_taps.append(self._deliver)
        world.net.write_taps.append(self._write)

    def _deliver(self, conn, side, data):
        if side != "s":
            return
        t = self.world.loop.time()
        if conn.port == self.port:
            self.byte_times[conn.id] = t
            n = data.count(b"\n")
            if n:
                self.line_times.setdefault(conn.id, []).extend([t] * n)
        else:
            self.data_in[conn.id] = t

    def _write(self, conn, side, data):
        if side == "s":
            self.srv_writes.setdefault(conn.id, []).append((self.world.loop.time(), bytes(data[:64])))


def _ledger_violations(world, label, subject, harness):
    out = []
    net = world.net
    for t in net.transports:
        if t.side == "s" and t.conn.label == label and not t._closing and not t._lost_called:
            kind = "control" if t.conn.port == world.server.server_port else "data"
            out.append({"clause": "timeout-release-incomplete", "subject": f"{kind}-socket:{subject}", "detail": f"server-side {kind} transport of conn {t.conn.id} still open after the timeout released the session"})
    for port, lst in net.listeners.items():
        if lst.label == label and port != world.server.server_port:
            out.append({"clause": "timeout-release-incomplete", "subject": f"listener:{subject}", "detail": f"passive listener {port} still open"})
    for v in world.fsctl.handles.values():
        if v[0] == label:
            out.append({"clause": "timeout-release-incomplete", "subject": f"file:{subject}", "detail": f"backend file {v[1]} still open"})
    cur = asyncio.current_task(world.loop)
    for t in asyncio.all_tasks(world.loop):
        if t is cur or t in harness or t.done():
            continue
        try:
            lab = t.get_context().get(SESSION)
        except Exception:
            lab = None
        if lab == label:
            out.append({"clause": "timeout-release-incomplete", "subject": f"task:{subject}", "detail": f"server task still pending: {t.get_coro().__qualname__}"})
    if world.server.connections:
        for key, conn in list(world.server.connections.items()):
            out.append({"clause": "timeout-release-incomplete", "subject": f"table:{subject}", "detail": "session still in Server.connections"})
    return out


def _sigma(world, label, t_from):
    return sum(d for (t, d, lab) in world.fsctl.delay_log if lab == label and t + d >= t_from - EPS)


# ----------------------------------------------------------------------- silent


def run_silent(case):
    B = 16
    rng = random.Random(case["seed"] * 7919 + 13)
    net = _net(case, rng)
    S = corpus.scripts(B)
    script = [op for op in S[case["script"]] if op[0] not in ("quit", "close")]
    tree = corpus.tree("/s0", B)
    sc = {"seed": case["seed"], "server": _server_spec(case, B), "net": net, "fs": {"delay": case.get("fs_delay", [0.0001, 0.002]), "tree": tree}}
    idle, sock = case.get("idle"), case.get("sock")
    horizon = 10 * max([x for x in (idle, sock, case.get("wait")) if x] or [10.0])
    viol = []
    info = {}
    world = scenario.setup_world(sc)
    with world:
        server = scenario.finish_setup(world, sc)
        wire = Wire(world)
        sess = {"label": "s0", "script": script, "prefix": "/s0", "reply_timeout": 1e6}
        so = scenario.SessionObs("s0")

        async def drain_data(peer):
            # a client that went silent on the control channel still has its data sockets read by the kernel / app
            seen = set()
            while True:
                for tr in list(peer.data_conns):
                    if id(tr) not in seen:
                        seen.add(id(tr))
                        tr.resume_reading()
                await asyncio.sleep(0.05)

        def go_silent():
            info["silent_at"] = world.loop.time()
            info["silent_event"] = world.net.seq
            t = info.get("task")
            if t is not None:
                t.cancel()
            peer = so.peer
            if peer is not None and peer.writer is not None:
                conn = peer.writer.transport.conn
                conn.pipes["s"].frozen = True  # nothing more reaches the server on the control channel

        if case.get("k") is not None:
            world.net.at_event(case["k"], go_silent)

        async def main():
            await server.start("127.0.0.1", 2121)
            t = world.spawn(scenario.run_script(world, sess, so, ("127.0.0.1", 2121)), "s0")
            info["task"] = t
            try:
                await asyncio.wait_for(asyncio.wait([t]), 1e5)
            except asyncio.TimeoutError:
                pass
            if "silent_at" not in info:
                go_silent()  # script finished: the peer simply stays connected and silent
            info["script_events"] = world.net.seq
            await asyncio.sleep(horizon)
            peer = so.peer
            harness = {t}
            if peer is None or peer.writer is None:
                return
            ctl = peer.writer.transport
            srv = ctl.conn.ends.get("s")
            info["accepted"] = srv is not None
            if srv is None:
                return
            cid = ctl.conn.id
            t_accept = srv.created_at
            lines = wire.line_times.get(cid, [])
            T_line = lines[-1] if lines else t_accept
            T_byte = max(wire.byte_times.get(cid, t_accept), T_line)
            closed = srv.closed_at
            subject = f"{case['script']}"
            # legitimate other reasons for the server to end the session (the script itself
            # may have provoked them before the stall): 421/221 replies, a reset data connection
            said_bye = any(d.startswith((b"221", b"421")) for (_, d) in wire.srv_writes.get(cid, []))
            info.update(T_line=T_line, T_byte=T_byte, closed=closed, said_bye=said_bye)
            if said_bye:
                info["excluded"] = "server announced the end itself"
            elif idle is None:
                if closed is not None:
                    # with idle_timeout=None nothing may drop a silent session ... unless a data
                    # connection legitimately timed out (socket_timeout on a stalled upload)
                    stalled_upload = sock is not None and _upload_in_progress(so)
                    if not stalled_upload:
                        viol.append({"clause": "dropped-without-idle-timeout", "subject": subject, "detail": f"idle_timeout=None, socket_timeout={sock}: silent session dropped at +{closed - T_line:.6f}s after its last command"})
            else:
                lo = T_line + idle - EPS
                hi = T_byte + idle + EPS
                if closed is None:
                    viol.append({"clause": "idle-session-not-dropped", "subject": subject, "detail": f"idle_timeout={idle}: session silent since {T_line:.6f} still open at {world.loop.time():.6f}"})
                elif closed < lo:
                    stalled_upload = sock is not None and _upload_in_progress(so)
                    if not stalled_upload:
                        viol.append({"clause": "dropped-before-idle-timeout", "subject": subject, "detail": f"idle_timeout={idle}: dropped {closed - T_line:.6f}s after the last complete command (socket_timeout={sock})"})
                elif closed > hi:
                    viol.append({"clause": "dropped-late", "subject": subject, "detail": f"idle_timeout={idle}: dropped {closed - T_byte:.6f}s after the last byte"})
                else:
                    info["released"] = True
            if closed is not None:
                viol.extend(_ledger_violations(world, "s0", subject, harness))
            try:
                await asyncio.wait_for(server.close(), 1e4)
            except asyncio.TimeoutError:
                viol.append({"clause": "server-close-hangs", "subject": subject, "detail": "Server.close() did not complete"})

        world.run(main())
        return _finish(world, case, viol, info, nontrivial=info.get("released") or case.get("idle") is None, peer=so.peer)


def _upload_in_progress(so):
    if not so.ops:
        return False
    op = so.ops[-1]
    return op["op"][0] == "put" and not op.get("done")


# ----------------------------------------------------------------------- nodata


def run_nodata(case):
    B = 16
    rng = random.Random(case["seed"] * 7919 + 17)
    net = _net(case, rng)
    tree = corpus.tree("/s0", B)
    sc = {"seed": case["seed"], "server": _server_spec(case, B), "net": net, "fs": {"delay": case.get("fs_delay", [0.0001, 0.002]), "tree": tree}}
    idle, wait = case.get("idle"), case.get("wait")
    verb = case.get("verb", "RETR")
    viol = []
    info = {}
    world = scenario.setup_world(sc)
    with world:
        server = scenario.finish_setup(world, sc)
        wire = Wire(world)
        peer = RawPeer(world, "s0", reply_timeout=1e6)
        subject = f"{verb}"
        horizon = 10 * max([x for x in (idle, wait) if x] or [10.0])

        async def sess():
            await peer.connect()
            await peer.login()
            await peer.cmd("CWD /s0")
            await peer.passive(case.get("passive", "EPSV"))
            line = {"RETR": "RETR a.bin", "STOR": "STOR nn", "APPE": "APPE b.bin", "LIST": "LIST d1", "MLSD": "MLSD d1"}[verb]
            await peer.send(line)
            cid = peer.writer.transport.conn.id
            replies = []
            srv_ctl = peer.writer.transport.conn.ends.get("s")
            idle_first = idle is not None and (wait is None or idle <= wait)
            try:
                replies.append(await peer.reply(horizon))  # the 1xx mark
                if wait is None or idle_first:
                    while True:
                        replies.append(await peer.reply(horizon))
                else:
                    replies.append(await peer.reply(wait * 2 + 5.0))  # the 425; the peer then acts at once
            except (ReplyTimeout, PeerGone):
                pass
            info["replies"] = [c for c, _ in replies]
            T_cmd = wire.line_times[cid][-1]
            info["T_cmd"] = T_cmd
            w425 = [t for (t, d) in wire.srv_writes.get(cid, []) if d.startswith(b"425")]
            codes = info["replies"]
            if wait is None or idle_first:
                if codes != ["150"]:
                    viol.append({"clause": "gave-up-without-wait-timeout", "subject": subject, "detail": f"wait_future_timeout={wait}, idle_timeout={idle}: replies {codes}"})
                if idle is None:
                    if peer.closed_by_server:
                        viol.append({"clause": "dropped-without-idle-timeout", "subject": f"waiting:{subject}", "detail": "no timeout configured but the session waiting for its data connection was dropped"})
                else:
                    closed = srv_ctl.closed_at if srv_ctl is not None else None
                    if closed is None:
                        viol.append({"clause": "idle-session-not-dropped", "subject": f"waiting:{subject}", "detail": f"idle_timeout={idle}: session waiting for a data connection still open"})
                    elif not (T_cmd + idle - EPS <= closed <= T_cmd + idle + EPS):
                        viol.append({"clause": "dropped-before-idle-timeout" if closed < T_cmd + idle else "dropped-late", "subject": f"waiting:{subject}", "detail": f"closed {closed - T_cmd:.6f}s after the command, idle_timeout={idle}"})
                    else:
                        info["released"] = True
                return
            sigma = _sigma(world, "s0", T_cmd)
            if codes != ["150", "425"]:
                viol.append({"clause": "no-425-after-wait-timeout", "subject": subject, "detail": f"wait_future_timeout={wait}: replies {codes} (control closed by server: {peer.closed_by_server})"})
            elif not w425:
                viol.append({"clause": "no-425-after-wait-timeout", "subject": subject, "detail": "425 not seen at the wire"})
            else:
                t = w425[0]
                if t < T_cmd + wait - EPS:
                    viol.append({"clause": "425-too-early", "subject": subject, "detail": f"425 submitted {t - T_cmd:.6f}s after the command, wait_future_timeout={wait}"})
                elif t > T_cmd + wait + sigma + EPS:
                    viol.append({"clause": "425-too-late", "subject": subject, "detail": f"425 submitted {t - T_cmd:.6f}s after the command, wait_future_timeout={wait}, backend delays {sigma:.6f}"})
                else:
                    info["released"] = True
            if not peer.closed_by_server:
                try:
                    c, lines = await peer.cmd("PWD", horizon)
                    if c != "257":
                        viol.append({"clause": "session-unusable-after-425", "subject": subject, "detail": f"PWD answered {c}"})
                    # a complete transfer on a fresh data connection must work as well
                    r = await peer.download("RETR /s0/b.bin", passive="PASV", data_timeout=horizon)
                    if r["final"] != "226" or r["data"] != scenario.payload("/s0/b.bin", B):
                        viol.append({"clause": "session-unusable-after-425", "subject": subject, "detail": f"RETR after 425: {r['mark']}/{r['final']} {len(r['data'])} bytes"})
                except (PeerGone, ReplyTimeout) as e:
                    viol.append({"clause": "session-unusable-after-425", "subject": subject, "detail": f"{type(e).__name__} after 425"})
            else:
                viol.append({"clause": "session-ended-after-425", "subject": subject, "detail": "control connection closed by the server after 425"})

        async def main():
            await server.start("127.0.0.1", 2121)
            t = world.spawn(sess(), "s0")
            await asyncio.wait([t])
            if t.exception() is not None:
                raise t.exception()
            # now the peer goes silent: idle timeout (if any) must release everything
            if peer.writer is not None and not peer.closed_by_server:
                ctl = peer.writer.transport
                srv = ctl.conn.ends.get("s")
                cid = ctl.conn.id
                T_line = wire.line_times[cid][-1]
                await asyncio.sleep(horizon)
                if idle is not None:
                    if srv.closed_at is None:
                        viol.append({"clause": "idle-session-not-dropped", "subject": f"after-425:{subject}", "detail": f"idle_timeout={idle}: still open"})
                    elif not (T_line + idle - EPS <= srv.closed_at <= T_line + idle + EPS):
                        viol.append({"clause": "dropped-before-idle-timeout" if srv.closed_at < T_line + idle else "dropped-late", "subject": f"after-425:{subject}", "detail": f"closed {srv.closed_at - T_line:.6f}s after last command, idle_timeout={idle}"})
                    else:
                        viol.extend(_ledger_violations(world, "s0", f"after-425:{subject}", {t}))
                elif srv.closed_at is not None:
                    viol.append({"clause": "dropped-without-idle-timeout", "subject": f"after-425:{subject}", "detail": "idle_timeout=None but the session was dropped"})
            try:
                await asyncio.wait_for(server.close(), 1e4)
            except asyncio.TimeoutError:
                viol.append({"clause": "server-close-hangs", "subject": subject, "detail": "Server.close() did not complete after a 425 session"})
            await asyncio.sleep(1)
            left = [tr for tr in world.net.transports if tr.side == "s" and not tr._closing and not tr._lost_called]
            if left:
                viol.append({"clause": "timeout-release-incomplete", "subject": f"after-close:{subject}", "detail": f"{len(left)} server-side transports open after Server.close()"})

        world.run(main())
        return _finish(world, case, viol, info, nontrivial=bool(info.get("released")) or wait is None, peer=peer)


# ----------------------------------------------------------------------- stall


def run_stall(case):
    B = 16
    rng = random.Random(case["seed"] * 7919 + 19)
    net = _net(case, rng)
    cap = case.get("capacity", rng.choice([1, 7, 24, 100]))
    hw = case.get("high_water", rng.choice([0, 1, 16]))
    size = case.get("size", 12 * B + 5)
    tree = {"/s0": None, "/s0/big.bin": size}
    sc = {"seed": case["seed"], "server": _server_spec(case, B), "net": net, "fs": {"delay": case.get("fs_delay", [0.0001, 0.002]), "tree": tree}}
    idle, sock = case.get("idle"), case.get("sock")
    direction = case.get("dir", "retr")
    viol = []
    info = {}
    world = scenario.setup_world(sc)
    with world:
        server = scenario.finish_setup(world, sc)
        wire = Wire(world)
        peer = RawPeer(world, "s0", reply_timeout=1e6)
        subject = direction
        horizon = 10 * max([x for x in (idle, sock) if x] or [10.0])

        def freeze():
            if peer.data is None:
                return
            info["frozen_at"] = world.loop.time()
            conn = peer.data[1].transport.conn
            conn.pipes["c"].frozen = True  # server -> client data stops moving
            conn.pipes["s"].frozen = True  # and nothing more reaches the server either

        async def sess():
            await peer.connect()
            await peer.login()
            await peer.cmd("CWD /s0")
            await peer.passive(case.get("passive", "EPSV"))
            dr, dw = await peer.data_connect(limit=64)
            dconn = dw.transport.conn
            info["dconn"] = dconn.id
            narrow = core.NetConfig()
            narrow.latency = tuple(world.net.cfg.latency)
            narrow.seg_mode, narrow.seg_max = world.net.cfg.seg_mode, world.net.cfg.seg_max
            narrow.capacity, narrow.high_water = cap, hw
            dconn.cfg = narrow
            for end in dconn.ends.values():
                end.set_write_buffer_limits(high=hw)
            if direction == "retr":
                await peer.send("RETR big.bin")
                info["k_cmd"] = world.net.seq
                if case.get("k") is not None:
                    world.net.at_event(case["k"], freeze)
                # the peer application reads; the stall is in the network / kernel
                got = bytearray()
                try:
                    while True:
                        b = await dr.read(4096)
                        if not b:
                            info["data_end"] = "eof"
                            break
                        got += b
                except ConnectionError:
                    info["data_end"] = "reset"
                info["got"] = len(got)
            else:
                await peer.send("STOR up.bin")
                info["k_cmd"] = world.net.seq
                pay = scenario.payload("up", size)
                j = case.get("chunks_before_stall", 3)
                step = B // 2 + 3
                pos = 0
                try:
                    for _ in range(j):
                        dw.write(pay[pos : pos + step])
                        pos += step
                        await dw.drain()
                        await asyncio.sleep(0.001)
                except ConnectionError:
                    pass
                info["sent"] = pos
                info["frozen_at"] = world.loop.time()
                # the peer stops sending but keeps the connection open
            info["k_end"] = world.net.seq

        async def main():
            await server.start("127.0.0.1", 2121)
            t = world.spawn(sess(), "s0")
            try:
                await asyncio.wait_for(asyncio.wait([t]), horizon * 3 + 100)
            except asyncio.TimeoutError:
                pass
            await asyncio.sleep(horizon)
            if "dconn" not in info:
                return
            dconn = world.net.conns[info["dconn"]]
            srv = dconn.ends.get("s")
            if srv is None:
                return
            ctl_id = peer.writer.transport.conn.id
            completed = any(d.startswith(b"226") for (_, d) in wire.srv_writes.get(ctl_id, []))
            stalled = "frozen_at" in info and (direction == "stor" or info.get("data_end") != "eof") and not completed
            info["stalled"] = stalled
            if direction == "retr" and "frozen_at" in info and completed and not srv._lost_called and len(srv._sendbuf) > srv.get_write_buffer_limits()[1]:
                # every block is written with a drain, so at most `high water` bytes can be
                # waiting in the server's transport when the worker finishes; more than that
                # means the worker kept writing into a connection that had stopped moving, said
                # 226, and left a socket behind that no timeout will ever release
                viol.append({"clause": "stalled-data-connection-not-given-up", "subject": "retr:completion-reply-while-stalled", "detail": f"socket_timeout={sock}: the data connection stopped moving at {info['frozen_at']:.6f}, the server nevertheless answered 226 and its data socket is still open at {world.loop.time():.6f} with {len(srv._sendbuf)} unsent bytes (write buffer high-water mark {srv.get_write_buffer_limits()[1]})"})
            if not stalled:
                return
            closed = srv.closed_at
            ctl = peer.writer.transport.conn
            csrv = ctl.ends.get("s")
            T_line = wire.line_times[ctl.id][-1]
            if direction == "retr":
                ref = srv.last_write_at if srv.last_write_at is not None else srv.created_at
            else:
                # the server's first read on the data connection starts when the transfer
                # command has been received (and its pre-checks are done: counted in sigma)
                ref = max(wire.data_in.get(dconn.id, srv.created_at), T_line)
            sigma = _sigma(world, "s0", ref)
            info.update(ref=ref, closed=closed)
            # Two deadlines can end the stalled transfer: the data connection's own
            # socket_timeout, and the idle timeout of the (equally silent) control channel,
            # whose clean-up closes the data connection too.  The earlier one is expected;
            # closing may lag by the backend delays of the unwinding (file close) = sigma.
            cands = []
            if sock is not None:
                cands.append(ref + sock)
            if idle is not None:
                cands.append(T_line + idle)
            if not cands:
                if closed is not None:
                    viol.append({"clause": "data-connection-dropped-without-socket-timeout", "subject": subject, "detail": f"no timeout configured: stalled data connection closed {closed - ref:.6f}s after its last movement"})
            else:
                exp = min(cands)
                which = "socket_timeout" if sock is not None and exp == ref + sock else "idle_timeout"
                if closed is None:
                    viol.append({"clause": "stalled-data-connection-not-given-up", "subject": subject, "detail": f"socket_timeout={sock} idle_timeout={idle}: data connection stalled since {ref:.6f} still open at {world.loop.time():.6f}"})
                elif closed < exp - EPS:
                    viol.append({"clause": "data-connection-dropped-early", "subject": subject, "detail": f"socket_timeout={sock} idle_timeout={idle}: closed {closed - ref:.6f}s after the last movement, expected {exp - ref:.6f}s ({which})"})
                elif closed > exp + sigma + EPS:
                    viol.append({"clause": "data-connection-dropped-late", "subject": subject, "detail": f"socket_timeout={sock} idle_timeout={idle}: closed {closed - ref:.6f}s after the last movement, expected {exp - ref:.6f}s ({which}) + backend delays {sigma:.6f}"})
                else:
                    info["released"] = True
                    info["released_by"] = which
                    if csrv is not None and csrv.closed_at is not None:
                        viol.extend(_ledger_violations(world, "s0", subject, {t}))
            try:
                await asyncio.wait_for(server.close(), 1e4)
            except asyncio.TimeoutError:
                viol.append({"clause": "server-close-hangs", "subject": subject, "detail": "Server.close() did not complete"})

        world.run(main())
        return _finish(world, case, viol, info, nontrivial=bool(info.get("stalled")), peer=peer)


# ----------------------------------------------------------------------- chatty


def run_chatty(case):
    B = 16
    rng = random.Random(case["seed"] * 7919 + 23)
    net = _net(case, rng)
    idle = case["idle"]
    # the gap seen by the server is 0.9*idle + delivery jitter: keep the control channel fast
    hi_ = min(net["latency"][1], 0.02 * idle)
    net["latency"] = [hi_ / 2, hi_]
    net["send_delay"] = 0.0
    net["capacity"] = max(net.get("capacity", 4096), 4096)
    tree = corpus.tree("/s0", B)
    tree["/s0/long.bin"] = 20 * B
    sc = {"seed": case["seed"], "server": _server_spec(case, B), "net": net, "fs": {"delay": case.get("fs_delay", [0.0001, 0.002]), "tree": tree}}
    viol = []
    info = {"rounds": 0}
    world = scenario.setup_world(sc)
    with world:
        server = scenario.finish_setup(world, sc)
        peer = RawPeer(world, "s0", reply_timeout=1e6)
        subject = "slow-transfer" if case.get("slow_transfer") else "pwd"
        rounds = case.get("rounds", 14)

        async def sess():
            await peer.connect()
            await peer.login()
            await peer.cmd("CWD /s0")
            cmds = ["PWD", "SYST", "TYPE I", "NOOP", "MLST a.bin", "CWD /s0"]
            rt = None
            if case.get("slow_transfer"):
                await peer.passive("EPSV")
                dr, dw = await peer.data_connect()
                # only the data connection crawls: 8 bytes per round trip of 0.1*idle
                slow = core.NetConfig()
                slow.latency = (0.04 * idle, 0.05 * idle)
                slow.seg_mode = "mss"
                slow.seg_max = 8
                slow.capacity = 8
                slow.high_water = 8
                dw.transport.conn.cfg = slow
                await peer.send("RETR long.bin")
                t_start = world.loop.time()

                async def reader():
                    buf = bytearray()
                    while True:
                        b = await dr.read(64)
                        if not b:
                            info["transfer_seconds"] = world.loop.time() - t_start
                            return bytes(buf)
                        buf += b

                rt = world.loop.create_task(reader())
            for i in range(rounds):
                await asyncio.sleep(0.9 * idle)
                await peer.send(cmds[i % len(cmds)])
                info["rounds"] += 1
            if rt is not None:
                try:
                    data = await asyncio.wait_for(rt, 0.5 * idle)
                except asyncio.TimeoutError:
                    data = None
                info["transfer_longer_than_idle"] = info.get("transfer_seconds", 1e9) > idle
                if data is not None and data != scenario.payload("/s0/long.bin", 20 * B):
                    viol.append({"clause": "chatty-session-transfer-broken", "subject": subject, "detail": f"received {len(data)} of {20 * B} bytes; control closed by server: {peer.closed_by_server}"})
            else:
                await asyncio.sleep(0.5 * idle)
            # drain replies: the control connection must still be open
            try:
                while True:
                    await peer.reply(0.05 * idle)
            except ReplyTimeout:
                pass
            except PeerGone:
                pass
            if peer.closed_by_server:
                viol.append({"clause": "active-session-dropped", "subject": subject, "detail": f"a session sending a command every 0.9*idle_timeout (idle_timeout={idle}, socket_timeout={case.get('sock')}) was dropped after {info['rounds']} rounds"})

        async def main():
            await server.start("127.0.0.1", 2121)
            t = world.spawn(sess(), "s0")
            await asyncio.wait([t])
            if t.exception() is not None and not isinstance(t.exception(), (PeerGone, ReplyTimeout)):
                raise t.exception()
            if isinstance(t.exception(), PeerGone):
                viol.append({"clause": "active-session-dropped", "subject": subject, "detail": f"control connection closed by the server after {info['rounds']} rounds (idle_timeout={idle}, socket_timeout={case.get('sock')})"})
            peer.close()
            await asyncio.sleep(1)
            await common.close_server(server)

        world.run(main())
        return _finish(world, case, viol, info, nontrivial=info["rounds"] >= 5, peer=peer)


# ----------------------------------------------------------------------- plumbing


def _finish(world, case, viol, info, nontrivial, peer=None):
    gc.collect()
    if world.outcome == "deadlock":
        viol.append({"clause": "hang", "subject": case["kind"], "detail": "simulation deadlocked"})
    elif common.frozen_violation(world):
        viol.append(common.frozen_violation(world, case["kind"]))
    elif world.outcome not in ("ok", "budget"):
        raise common.HarnessError(f"scenario failed: {world.outcome}: {world.error!r}")
    for e in world.loop.exc_log:
        if "never retrieved" in e["message"]:
            continue  # log hygiene (an un-retrieved task exception), not something the property forbids
        viol.append({"clause": "unhandled-exception", "subject": f"{case['kind']}:{e['exc_type']}", "detail": f"{e['message']}: {e['exception']}"})
    seen = set()
    out = []
    for v in viol:
        key = (v["clause"], v["subject"])
        if key not in seen:
            seen.add(key)
            out.append(v)
    res = {
        "digest": world.digest([tuple(x[1:]) for x in (peer.transcript if peer is not None else [])]),
        "nontrivial": bool(nontrivial),
        "vtime": world.loop.time() - 1000.0,
        "events": world.net.seq,
        "steps": world.loop.steps,
        "outcome": world.outcome,
        "counters": {f"kind.{case['kind']}": 1, f"released.{case['kind']}": int(bool(info.get("released"))), "probe.stall_mid_line": int(info.get("T_byte", 0) > info.get("T_line", 0) + EPS), "probe.transfer_longer_than_idle": int(bool(info.get("transfer_longer_than_idle"))), "probe.stall_released_by_socket_timeout": int(info.get("released_by") == "socket_timeout"), "probe.stall_released_by_idle_timeout": int(info.get("released_by") == "idle_timeout")},
        "groups": {"settings": {f"idle={case.get('idle')} sock={case.get('sock')} wait={case.get('wait')}": 1}},
        "violations": out,
        "script_events": info.get("script_events"),
        "k_cmd": info.get("k_cmd"),
        "k_end": info.get("k_end"),
    }
    if case.get("want_sample"):
        res["sample"] = {"case": case, "info": {k: v for k, v in info.items() if k != "task"}, "transcript": [list(x) for x in (peer.transcript if peer is not None else [])][:30]}
    return res


def run_case(case):
    return {"silent": run_silent, "nodata": run_nodata, "stall": run_stall, "chatty": run_chatty}[case["kind"]](case)


def build(case):  # for checks/debug.py
    raise NotImplementedError


def confirm(case, violation):
    r = run_case(case)
    return any(v["clause"] == violation["clause"] and v["subject"] == violation["subject"] for v in r["violations"])


def minimise(case, violation):
    def bad(c):
        try:
            r = run_case(c)
        except Exception:
            return False
        return any(v["clause"] == violation["clause"] and v["subject"] == violation["subject"] for v in r["violations"])

    cur = dict(case)
    for change in ({"fs_delay": None}, {"net": {"seg_mode": "whole", "latency": [0.001, 0.001], "send_delay": 0.0, "accept_delay": [0.0, 0.0]}}, {"small_pipe": False}):
        trial = dict(cur)
        trial.update(change)
        if trial != cur and bad(trial):
            cur = trial
    cur.pop("want_sample", None)
    return cur, violation


def _settings(rnd):
    return {"idle": rnd.choice(TVALS), "sock": rnd.choice(TVALS), "wait": rnd.choice(TVALS)}


def selftest_cases(n):
    r = random.Random(1616)
    names = sorted(corpus.scripts())
    out = []
    for i in range(n):
        kind = r.choice(["silent", "silent", "nodata", "stall", "chatty"])
        c = {"kind": kind, "seed": r.randrange(10**6)}
        c.update(_settings(r))
        if kind == "silent":
            c.update(script=r.choice(names), k=r.randrange(1, 80), sock=None)
        elif kind == "nodata":
            c.update(verb=r.choice(["RETR", "STOR", "LIST", "MLSD", "APPE"]))
        elif kind == "stall":
            c.update(dir=r.choice(["retr", "stor"]), k=r.randrange(60, 200))
        else:
            c.update(idle=r.choice([0.7, 3.0]), slow_transfer=r.random() < 0.5)
        out.append(c)
    return out


def main(argv=None):
    a = common.tier_and_seed(argv)
    if a.replay:
        import json

        doc = json.load(open(a.replay))
        r = run_case(doc["case"])
        hit = [v for v in r["violations"] if v["clause"] == doc["clause"]]
        if hit:
            print(f"reproduced: {hit[0]}")
            print(f"VIOLATION property={PROP} replay={a.replay}")
            return 1
        print("not reproduced")
        return 0
    quick = a.tier == "quick"
    ev = common.Evidence(PROP, a.tier, a.seed, "fault_enumeration", "stall positions enumerated by network event index inside seeded schedules: (silent) every corpus script x event k at which the peer stops sending; (stall) RETR/STOR x event k / chunk j at which the data channel stops moving; (nodata) every transfer verb with the data connection never made; (chatty) command every 0.9*idle; x timeout settings {None,0.7,3,11}^3 sampled; non-trivial = the stall happened and the relevant timeout released it (or provably must not)")
    rep = common.Reporter(PROP, ev)
    names = sorted(corpus.scripts())
    rnd = random.Random(a.seed)
    deadline = time.time() + (a.budget or (100 if quick else 1500))
    nseed = 3 if quick else 8
    with common.Pool() as pool:
        pilots = []
        for s in range(nseed):
            for n in names:
                pilots.append({"kind": "silent", "script": n, "seed": a.seed * 1000 + s, "idle": rnd.choice([0.7, 3.0, 11.0]), "sock": None, "wait": rnd.choice(TVALS)})
            for d in ("retr", "stor"):
                pilots.append({"kind": "stall", "dir": d, "seed": a.seed * 1000 + s, "idle": None, "sock": rnd.choice([0.7, 3.0]), "wait": None})
        pilots[0]["want_sample"] = True
        plan = []
        for case, res in pool.map(run_case, pilots, chunksize=1):
            ev.add_run(res)
            for v in res["violations"]:
                rep.add(case, v)
            if case["kind"] == "silent":
                N = res["script_events"] or 0
                ks = list(range(1, N + 1))
                if quick and len(ks) > 60:
                    ks = sorted(rnd.sample(ks, 60))
                for k in ks:
                    st = _settings(rnd)
                    # pure settings so that only one timeout can be responsible (see DESIGN C16)
                    if rnd.random() < 0.7:
                        st["sock"] = None
                    if st["idle"] is None and st["sock"] is None and rnd.random() < 0.7:
                        st["idle"] = rnd.choice([0.7, 3.0])
                    d = {"kind": "silent", "script": case["script"], "seed": case["seed"], "k": k}
                    d.update(st)
                    if rnd.random() < 0.5:
                        d["net"] = {"seg_mode": "dribble"}  # stalls land mid-line
                    plan.append(d)
            elif case["kind"] == "stall" and case["dir"] == "retr":
                lo, hi = (res["k_cmd"] or 1), (res["k_end"] or 1)
                ks = list(range(lo, hi + 1))
                if quick and len(ks) > 40:
                    ks = sorted(rnd.sample(ks, 40))
                for k in ks:
                    d = {"kind": "stall", "dir": "retr", "seed": case["seed"], "k": k}
                    d.update(_settings(rnd))
                    d["wait"] = None
                    plan.append(d)
        for s in range(nseed * (6 if quick else 12)):
            for j in range(0, 12):
                d = {"kind": "stall", "dir": "stor", "seed": a.seed * 1000 + s, "chunks_before_stall": j}
                d.update(_settings(rnd))
                d["wait"] = None
                plan.append(d)
            for verb in ("RETR", "STOR", "APPE", "LIST", "MLSD"):
                d = {"kind": "nodata", "verb": verb, "seed": a.seed * 1000 + s, "passive": rnd.choice(["EPSV", "PASV"])}
                d.update(_settings(rnd))
                if d["idle"] is not None and d["wait"] is not None and d["idle"] <= d["wait"]:
                    d["idle"] = d["wait"] * 4
                plan.append(d)
            for slow in (False, True):
                plan.append({"kind": "chatty", "seed": a.seed * 1000 + s, "idle": rnd.choice([0.7, 3.0, 11.0]), "sock": rnd.choice(TVALS), "wait": rnd.choice(TVALS), "slow_transfer": slow})
        rnd.shuffle(plan)
        for c in plan[:3]:
            c["want_sample"] = True
        total = len(plan)
        done = 0
        for case, res in pool.map(run_case, plan, deadline=deadline):
            done += 1
            ev.add_run(res)
            for v in res["violations"]:
                rep.add(case, v)
        ev.extra["sweep"] = {"positions_planned": total, "positions_run": done, "complete": done == total and not quick}
        ev.assumptions = [
            "virtual time: every deadline in aioftp reads loop.time(), which the simulator owns; loop iterations cost zero virtual time, so the bounds are checked with eps = 1 microsecond",
            "a stall is a permanent freeze of the affected pipe(s) at the chosen event; 'last movement' is read from the simulated wire",
            "settings are sampled so that at most one timeout can be responsible for a release; where two could be, the earlier deadline is the expected one",
        ]
        code = rep.finish(minimise=minimise, confirm=confirm)
    ev.write()
    print(f"{PROP}: {ev.evaluations} runs, {len(ev.nontrivial_digests)} distinct non-trivial, {ev.violations} violation classes, exit {code}")
    return code
