"""C12 - a session that ends, at any point and for any reason, releases everything.

G-sweep: every corpus script x every network event k x {peer vanishes (RST / FIN on all
its sockets), control connection alone cut (RST / FIN), data connection reset,
server.close()} under seeded latencies and backend delays, all server timeouts
disabled; then the simulator runs on *without any further peer input* and the ledger
is judged; finally server.close() must complete and leave nothing behind.
"""

from __future__ import annotations

import gc
import sys
import time

from checks import common
from simftp import corpus, scenario
from simftp.world import SESSION

PROP = "C12"
NARROW = {"capacity": 7, "high_water": 8, "seg_mode": "random", "seg_max": 7}
CUTS = ("vanish_rst", "vanish_fin", "ctl_rst", "ctl_fin", "data_rst", "server_close")


def build(case):
    """checks-level case -> scenario case"""
    import random

    B = case.get("B", 16)
    rng = random.Random(case["seed"] * 7919 + 13)
    net = scenario.random_net(rng, allow_small_pipe=case.get("small_pipe", True))
    if case["script"] == "flood_quit":
        net["capacity"], net["high_water"] = rng.choice([(64, 64), (7, 8), (256, 128)])
    if case["script"] == "stalled_reader":
        # narrow pipes: the file exceeds what network and transport buffer, so that the transfer
        # worker is blocked in a write with unsent bytes while the cuts are placed
        net["capacity"], net["high_water"] = rng.choice([(64, 64), (256, 128), (7, 100)])
    if case.get("net"):
        net.update(case["net"])
    S = {**corpus.scripts(B), **corpus.extra_scripts(B)}
    tree = {}
    sessions = []
    names = [case["script"]] + list(case.get("others") or ())
    for i, name in enumerate(names):
        prefix = f"/s{i}"
        tree.update(corpus.tree(prefix, B))
        script = list(S[name])
        if script[-1][0] != "quit":
            script = script + [["close"]]
        sessions.append({"label": f"s{i}", "script": script, "prefix": prefix, "start": 0.0 if i == 0 else 0.0007 * i})
    faults = []
    k = case.get("k")
    cut = case.get("cut")
    if k is not None and cut:
        at = ["event", k] if case.get("unit", "event") == "event" else ["step", k]
        if cut == "vanish_rst":
            faults.append({"at": at, "do": "vanish", "session": "s0", "how": "rst"})
        elif cut == "vanish_fin":
            faults.append({"at": at, "do": "vanish", "session": "s0", "how": "fin"})
        elif cut == "ctl_rst":
            faults.append({"at": at, "do": "ctl_cut", "session": "s0", "how": "rst"})
        elif cut == "ctl_fin":
            faults.append({"at": at, "do": "ctl_cut", "session": "s0", "how": "fin"})
        elif cut == "data_rst":
            faults.append({"at": at, "do": "data_cut", "session": "s0", "how": "rst"})
        elif cut == "server_close":
            faults.append({"at": at, "do": "server_close", "newcomers": case.get("newcomers")})
    delay = case.get("fs_delay", [0.0001, 0.002])
    return {
        "seed": case["seed"],
        "server": {"block_size": B, "idle_timeout": None, "socket_timeout": None, "wait_future_timeout": None, "users": corpus.USERS, "data_ports": case.get("data_ports"), "user_manager": case.get("manager"), "user_manager_delays": case.get("manager_delays")},
        "net": net,
        "fs": {"delay": delay, "tree": tree, "short_reads": bool(case["seed"] & 1)},
        "sessions": sessions,
        "faults": faults,
        "settle": 3600.0,
        "session_deadline": 5000.0,
        "final_close": True,
    }


def _session_of_task(t):
    try:
        return t.get_context().get(SESSION)
    except Exception:
        return None


def _verb_at_cut(obs, label):
    s = obs.sessions.get(label)
    if s is None or not s.ops:
        return "connect"
    op = s.ops[-1]["op"]
    if op[0] in ("get", "put", "cmd"):
        return op[1].split(" ")[0]
    return op[0]


def run_case(case):
    sc = build(case)
    viol = []
    info = {"ended": {}, "leak_checks": 0}

    def inspect(world, obs, phase):
        import asyncio

        gc.collect()
        net = world.net
        harness = set(getattr(obs, "harness_tasks", set())) | set(getattr(obs, "extra_harness_tasks", set()))
        cur = asyncio.current_task(world.loop)
        if phase == "settled":
            for label, s in obs.sessions.items():
                peer = s.peer
                if peer is None or peer.writer is None:
                    continue
                ctl = peer.writer.transport
                srv_ctl = ctl.conn.ends.get("s")
                ended = ctl._closing or ctl._lost_called or (srv_ctl is not None and (srv_ctl._closing or srv_ctl._lost_called)) or ctl.conn.accept_dropped
                info["ended"][label] = bool(ended)
                if not ended:
                    continue
                info["leak_checks"] += 1
                verb = _verb_at_cut(obs, label) if label == "s0" else "other"
                open_tr = [t for t in net.transports if t.side == "s" and t.conn.label == label and not t._closing and not t._lost_called]
                for t in open_tr:
                    kind = "control" if t.conn.port == world.server.server_port else "data"
                    viol.append({"clause": "session-end-leaves-socket", "subject": f"{kind}@{verb}", "detail": f"{label}: server-side {kind} transport of conn {t.conn.id} still open after the session ended (cut={case.get('cut')} k={case.get('k')})"})
                for port, lst in net.listeners.items():
                    if lst.label == label and port != world.server.server_port:
                        viol.append({"clause": "session-end-leaves-listener", "subject": f"listener@{verb}", "detail": f"{label}: passive listener on port {port} still open"})
                for v in world.fsctl.handles.values():
                    if v[0] == label:
                        viol.append({"clause": "session-end-leaves-file", "subject": f"file@{verb}", "detail": f"{label}: backend file {v[1]} ({v[2]}) still open"})
                for t in asyncio.all_tasks(world.loop):
                    if t is cur or t in harness or t.done():
                        continue
                    if _session_of_task(t) == label:
                        viol.append({"clause": "session-end-leaves-task", "subject": f"task@{verb}", "detail": f"{label}: server task still pending: {t.get_coro().__qualname__}"})
                for key, conn in list(world.server.connections.items()):
                    try:
                        lab = conn.command_connection.writer.transport.conn.label
                    except Exception:
                        lab = None
                    if lab == label:
                        viol.append({"clause": "session-end-leaves-table-entry", "subject": f"table@{verb}", "detail": f"{label}: still in Server.connections"})
        elif phase == "closed":
            verb = _verb_at_cut(obs, "s0")
            if not obs.close_completed:
                viol.append({"clause": "server-close-hangs", "subject": f"close@{verb}", "detail": "Server.close() did not complete"})
            for t in net.transports:
                if t.side == "s" and not t._closing and not t._lost_called:
                    viol.append({"clause": "server-close-leaves-socket", "subject": f"socket@{verb}", "detail": f"server-side transport of conn {t.conn.id} (port {t.conn.port}, {t.conn.label}) open after Server.close()"})
            if net.listeners:
                viol.append({"clause": "server-close-leaves-listener", "subject": f"listener@{verb}", "detail": f"listeners left: {sorted(net.listeners)}"})
            if world.fsctl.handles:
                viol.append({"clause": "server-close-leaves-file", "subject": f"file@{verb}", "detail": f"open backend files: {[v[1] for v in world.fsctl.handles.values()]}"})
            for t in asyncio.all_tasks(world.loop):
                if t is cur or t in harness or t.done():
                    continue
                viol.append({"clause": "server-close-leaves-task", "subject": f"task@{verb}", "detail": f"task still pending after Server.close(): {t.get_coro().__qualname__} (session {_session_of_task(t)})"})
            if world.server.connections:
                viol.append({"clause": "server-close-leaves-table-entry", "subject": f"table@{verb}", "detail": f"{len(world.server.connections)} entries in Server.connections"})

    obs = scenario.run_scenario(sc, inspect=inspect)
    gc.collect()
    world = obs.world
    if obs.outcome == "deadlock":
        viol.append({"clause": "hang", "subject": f"deadlock@{_verb_at_cut(obs, 's0')}", "detail": f"simulation deadlocked in phase {obs.phase}"})
    elif obs.outcome == "budget":
        pass
    elif common.frozen_violation(world):
        viol.append(common.frozen_violation(world))
    elif obs.outcome != "ok":
        raise common.HarnessError(f"scenario failed: {obs.outcome}: {obs.error!r}")
    for e in world.loop.exc_log:
        if "never retrieved" in e["message"]:
            continue  # log hygiene (an un-retrieved task exception), not something the property forbids
        viol.append({"clause": "unhandled-exception", "subject": f"{e['exc_type']}@{_verb_at_cut(obs, 's0')}", "detail": f"{e['message']}: {e['exception']}"})
    fired = sum(1 for f in obs.faults_fired if f[-1])
    counters = {"faults." + (case.get("cut") or "none"): fired, "leak_checks": info["leak_checks"], "fs_calls": world.fsctl.n}
    if world.fsctl.max_in_flight > 1:
        counters["probe.two_sessions_inside_backend"] = 1
    # dedupe
    seen = set()
    out = []
    for v in viol:
        key = (v["clause"], v["subject"])
        if key not in seen:
            seen.add(key)
            out.append(v)
    res = {
        "digest": obs.digest,
        "nontrivial": fired > 0 or case.get("k") is None,
        "vtime": obs.vtime,
        "events": obs.events,
        "steps": obs.steps,
        "outcome": obs.outcome,
        "counters": counters,
        "violations": out,
        "n_events_s0": getattr(obs, "net_events_at_settle", obs.events),
        "ended": info["ended"],
    }
    if case.get("want_sample"):
        s0 = obs.sessions.get("s0")
        res["sample"] = {"case": case, "faults_fired": obs.faults_fired, "transcript_s0": [list(x) for x in (s0.peer.transcript if s0 and s0.peer else [])][:40], "outcome": obs.outcome}
    return res


def confirm(case, violation):
    r1 = run_case(case)
    return any(v["clause"] == violation["clause"] and v["subject"] == violation["subject"] for v in r1["violations"])


def minimise(case, violation):
    """Shrink: no concurrent sessions, no backend delay, whole segments, zero latency,
    then the earliest k that still shows the same violation class."""

    def bad(c):
        try:
            r = run_case(c)
        except Exception:
            return False
        return any(v["clause"] == violation["clause"] and v["subject"] == violation["subject"] for v in r["violations"])

    cur = dict(case)
    for change in ({"others": []}, {"fs_delay": None}, {"net": {"seg_mode": "whole", "latency": [0.001, 0.001], "capacity": 262144, "high_water": 65536, "send_delay": 0.0, "accept_delay": [0.0, 0.0]}}, {"small_pipe": False}):
        trial = dict(cur)
        trial.update(change)
        if trial != cur and bad(trial):
            cur = trial
    cur.pop("want_sample", None)
    return cur, violation


def main(argv=None):
    a = common.tier_and_seed(argv)
    if a.replay:
        import json

        doc = json.load(open(a.replay))
        r = run_case(doc["case"])
        hit = [v for v in r["violations"] if v["clause"] == doc["clause"]]
        if hit:
            print(f"reproduced: {hit[0]}")
            print(f"VIOLATION property={PROP} replay={a.replay}")
            return 1
        print("not reproduced")
        return 0
    quick = a.tier == "quick"
    ev = common.Evidence(PROP, a.tier, a.seed, "fault_enumeration", "every corpus script x every network event index k x cut kind, re-executed deterministically with the fault placed at event k; a run is non-trivial when the fault actually fired; distinct = distinct run digests (hash of the full network event log, backend call log and transcripts) Includes a pipelined script, a download whose peer never reads the data connection, sessions that send an undecodable / over-long command line with a passive listener open, and peers that connect while Server.close() is under way (slow user manager).")
    rep = common.Reporter(PROP, ev)
    names = sorted({**corpus.scripts(), **corpus.extra_scripts()})
    seeds = [a.seed * 1000 + i for i in range(1 if quick else 6)]
    budget = a.budget or (100 if quick else 1500)
    deadline = time.time() + budget
    complete = True
    with common.Pool() as pool:
        # swarm: every (script, seed) pair gets its own network / backend configuration
        pilots = [{"script": n, "seed": s * 100 + i, "want_sample": (i == 0)} for s in seeds for i, n in enumerate(names)]
        # the scripts that end with QUIT once more over a narrow control pipe (the 221 does not fit
        # into one segment, so the reply writer is blocked in its write when the cut arrives)
        S0 = {**corpus.scripts(), **corpus.extra_scripts()}
        pilots += [{"script": n, "seed": s * 100 + i, "net": dict(NARROW)} for s in seeds for i, n in enumerate(names) if S0[n][-1][0] == "quit"]
        plan = []
        npilot_events = {}
        for case, res in pool.map(run_case, pilots, chunksize=1):
            ev.add_run(res)
            for v in res["violations"]:
                rep.add(case, v)
            N = res["n_events_s0"]
            npilot_events[(case["script"], case["seed"], bool(case.get("net")))] = N
            for cut in CUTS:
                for k in range(1, N + 1):
                    c = {"script": case["script"], "seed": case["seed"], "cut": cut, "k": k}
                    if case.get("net"):
                        if k < N - 14 or cut not in ("vanish_rst", "ctl_rst", "ctl_fin"):
                            continue  # the narrow variant is only about the QUIT window
                        c["net"] = dict(case["net"])
                    plan.append(c)
        # concurrency variants: the cut session runs next to two untouched ones
        import random

        r = random.Random(a.seed)
        extra = []
        for c in plan:
            if r.random() < (0.15 if quick else 0.5):
                d = dict(c)
                d["others"] = r.sample(names, 2)
                extra.append(d)
        r.shuffle(plan)
        # focused sub-sweep that the quick tier always runs in full: the QUIT window (every cut
        # position in the last events of the scripts that end with QUIT), where the server is
        # inside `await response_queue.join()` and no longer watches its tasks
        S = {**corpus.scripts(), **corpus.extra_scripts()}
        focus = [c for c in plan if S[c["script"]][-1][0] == "quit" and c["cut"] in ("vanish_rst", "ctl_rst", "ctl_fin") and c["k"] >= npilot_events.get((c["script"], c["seed"], bool(c.get("net"))), 0) - 14]
        # and the download whose peer never reads: control-only cuts and shutdown at every event
        focus += [c for c in plan if c["script"] == "stalled_reader" and c["cut"] in ("ctl_rst", "ctl_fin", "server_close")]
        focus += [c for c in plan if c["script"] == "flood_quit" and c["cut"] in ("vanish_rst", "ctl_rst", "ctl_fin", "server_close")]
        focus += [c for c in plan if c["script"] in ("bad_line", "long_line") and c["cut"] in ("vanish_rst", "ctl_rst", "ctl_fin", "server_close")]
        # step-granular sub-sweep: Server.close() at every event-loop step of the connect / greeting
        # / login window (a connection accepted but whose dispatcher has not started yet is
        # unknown to close())
        stepsweep = []
        for sname in ("idle", "stor_retr"):
            for sd in seeds[:2]:
                for k in range(1, 140 if sname == "idle" else 170):
                    # (stor_retr: far enough to cover the first EPSV - the listener is being opened
                    # when the session is cancelled - for Server.close() and for a vanishing peer)
                    for cut in (("server_close",) if sname == "idle" else ("server_close", "vanish_rst", "ctl_fin")):
                        stepsweep.append({"script": sname, "seed": sd * 100 + 77, "cut": cut, "k": k, "unit": "step", "fs_delay": None, "small_pipe": False, "net": {"latency": [0.0, 0.0], "send_delay": 0.0, "accept_delay": [0.0, 0.0], "seg_mode": "whole"}})
        # somebody connects while Server.close() is taking the sessions down (a user manager whose
        # notify_logout suspends makes that take a while): close() at every event of three scripts,
        # newcomers 0 .. 0.4 s after it started
        late = []
        for sname in ("idle", "stor_retr", "pasv_reuse"):
            for sd in seeds[:1]:
                N = npilot_events.get((sname, sd * 100 + names.index(sname), False), 60)
                for k in range(1, N + 1, 2 if quick else 1):
                    late.append({"script": sname, "seed": sd * 100 + names.index(sname), "cut": "server_close", "k": k, "newcomers": [0.0, 0.0011, 0.1, 0.4], "manager": "slow", "manager_delays": [0.3, 0.5]})
        plan = stepsweep + focus + late + plan + extra
        if quick:
            # quick tier: a seeded sample of the sweep that fits the budget; thorough does it all
            plan = plan[: 9000]
            complete = False
        total = len(plan)
        done = 0
        for i, c in enumerate(plan[:3]):
            c["want_sample"] = True
        for case, res in pool.map(run_case, plan, deadline=deadline):
            done += 1
            ev.add_run(res)
            for v in res["violations"]:
                rep.add(case, v)
        if done < total:
            complete = False
        ev.extra["sweep"] = {"scripts": len(names), "latency_seeds": len(seeds), "positions_planned": total, "positions_run": done, "cut_kinds": list(CUTS), "complete": complete}
        ev.assumptions = [
            "TCP is modelled at the level an application can observe (segmentation, delay, back-pressure, FIN, RST); no loss/reordering inside a connection",
            "all server timeouts are disabled so that nothing is rescued by a timeout",
            "the sweep is complete only relative to the corpus and the latency seeds it ran under",
        ]
        code = rep.finish(minimise=minimise, confirm=confirm)
    ev.write()
    print(f"{PROP}: {ev.evaluations} runs, {len(ev.nontrivial_digests)} distinct non-trivial, {ev.violations} violation classes, exit {code}")
    return code




def selftest_cases(n):
    import random

    r = random.Random(4242)
    names = sorted({**corpus.scripts(), **corpus.extra_scripts()})
    out = []
    for i in range(n):
        c = {"script": r.choice(names), "seed": r.randrange(10**6), "cut": r.choice(CUTS), "k": r.randrange(1, 60)}
        if r.random() < 0.3:
            c["others"] = r.sample(names, 2)
        out.append(c)
    return out
