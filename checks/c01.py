"""C01 - transferred bytes are exact (STOR / APPE / RETR, whole or from a restart offset).

Real aioftp.Client <-> real aioftp.Server on the simulated network.  Seeded swarm over
block size, payload length around block multiples, content kind, client write chunking /
read pattern, restart offsets, EPSV/PASV, throttles, network segmentation / latency /
pipe capacity, backend latency and short reads.  A byte-string model per path is the
oracle; the backend is compared with the model at the instant the completion reply has
been received, then a second session downloads / stats / lists, while a third session
keeps stat'ing and listing the same paths during the transfers.

A raw-peer sub-scenario resets the data connection in the middle of an upload: a
completion reply must then never be sent for a truncated file.
"""

from __future__ import annotations

import asyncio
import gc
import pathlib
import random
import time

from checks import common
from simftp import scenario
from simftp.peers import PeerGone, RawPeer, ReplyTimeout
from simftp.world import aioftp

PROP = "C01"
BLOCKS = [1, 2, 7, 16, 16, 64, 100, 1000, 8191, 8192, 8193, 65536]


def make_payload(rnd, kind, n):
    if n <= 0:
        return b""
    if kind == "ramp":
        return bytes((i & 0xFF) for i in range(n))
    if kind == "stamp":
        out = bytearray()
        i = 0
        salt = rnd.randrange(256)
        while len(out) < n:
            out += bytes((salt, (i >> 16) & 0xFF, (i >> 8) & 0xFF, i & 0xFF))
            i += 1
        return bytes(out[:n])
    if kind == "ctl":
        alphabet = [b"\r", b"\n", b"\r\n", b"\x00", b"\xff", b"\xff\xf4", b"\xff\xff", b"a", b" "]
        out = bytearray()
        while len(out) < n:
            out += rnd.choice(alphabet) * rnd.randint(1, 4)
        return bytes(out[:n])
    return bytes(rnd.getrandbits(8) for _ in range(n))


def pick_len(rnd, b):
    cands = [0, 1, b - 1, b, b + 1, 2 * b - 1, 2 * b, 2 * b + 1, 3 * b + 7, rnd.randint(0, 6 * b)]
    n = max(0, rnd.choice(cands))
    return min(n, 400_000)


def gen_case(seed):
    rnd = random.Random(seed * 65537 + 11)
    b = rnd.choice(BLOCKS)
    case = {"seed": seed, "B": b, "passive": rnd.choice([["epsv", "pasv"], ["pasv"], ["epsv"]])}
    ops = []
    files = {}
    nops = rnd.randint(1, 4)
    for i in range(nops):
        kind = rnd.choice(["stor", "stor", "appe", "retr", "retr", "stor_rest", "appe_rest"])
        name = rnd.choice(["f0", "f1"])
        if kind in ("retr", "stor_rest", "appe_rest") and name not in files:
            kind = "stor"
        ln = pick_len(rnd, b)
        op = {"kind": kind, "path": "d/" + name, "len": ln, "content": rnd.choice(["ramp", "stamp", "stamp", "ctl", "rand"]), "pseed": rnd.randrange(1 << 30)}
        cur = files.get(name, 0)
        if kind in ("stor_rest", "appe_rest"):
            op["offset"] = max(1, rnd.choice([1, cur // 2, cur - 1, cur, cur + 1, cur + 3 * b + 1]))
            files[name] = max(cur, op["offset"] + ln)
        elif kind == "stor":
            files[name] = ln
        elif kind == "appe":
            files[name] = cur + ln
        elif kind == "retr":
            op["offset"] = rnd.choice([0, 0, 1, cur // 2, max(0, cur - 1), cur, cur + 1, cur + 5 * b])
            op["read"] = rnd.choice(["all", "n", "iter"])
            op["n"] = max(1, rnd.choice([1, b - 1, b, b + 1, 3 * b, 4096]))
            if rnd.random() < 0.45:
                # other sessions download the same file while this one does
                op["co"] = [{"offset": rnd.choice([0, 0, 1, cur // 2, max(0, cur - 1)]), "delay": rnd.choice([0.0, 0.0, 0.0004, 0.002, 0.01, 0.05]), "n": max(1, rnd.choice([1, b, b + 1, 4096]))} for _ in range(rnd.randint(1, 2))]
        op["chunk"] = max(1, rnd.choice([1, b // 2, b, b + 1, 3 * b, 1 << 20]))
        ops.append(op)
    case["ops"] = ops
    case["throttle"] = rnd.choice([None, None, None, "server", "conn", "user", "client"])
    case["observer"] = rnd.random() < 0.5
    case["fs_delay"] = rnd.choice([None, [0.0001, 0.002]])
    case["short_reads"] = rnd.random() < 0.5
    case["backend"] = rnd.choice(["memory", "memory", "memory", "memory", "pathio", "asyncpathio"])
    return case


def apply_model(model, op, data):
    p = op["path"]
    old = model.get(p, b"")
    k = op["kind"]
    if k == "stor":
        model[p] = data
    elif k == "appe":
        model[p] = old + data
    elif k in ("stor_rest", "appe_rest"):
        o = op["offset"]
        if not data:
            model[p] = old  # seek without a write does not extend the file
        else:
            head = old[:o].ljust(o, b"\0")
            model[p] = head + data + old[o + len(data) :]


def run_case(case):
    if case.get("mode") == "reset":
        return run_reset_case(case)
    if case.get("mode") == "late":
        return run_late_case(case)
    b = case["B"]
    rng = random.Random(case["seed"] * 7919 + 37)
    net = scenario.random_net(rng, allow_small_pipe=True)
    total = sum(o["len"] for o in case["ops"])
    if total > 20000 or b > 1000:
        # big transfers: keep the number of network events bounded
        net["seg_mode"] = rng.choice(["whole", "mss", "random"])
        net["seg_max"] = max(net["seg_max"], 1460)
        net["capacity"] = max(net.get("capacity", 65536), 4096)
    if case.get("net"):
        net.update(case["net"])
    big = 10**7
    srv = {"block_size": b, "wait_future_timeout": 5.0}
    users = [{"login": None}]
    ckw = {}
    thr = case.get("throttle")
    rate = max(50 * b, 5000)
    if thr == "server":
        srv["read_speed_limit"] = rate
        srv["write_speed_limit"] = rate * 2
    elif thr == "conn":
        srv["read_speed_limit_per_connection"] = rate
        srv["write_speed_limit_per_connection"] = rate
    elif thr == "user":
        users = [{"login": None, "read_speed_limit": rate, "write_speed_limit_per_connection": rate}]
    elif thr == "client":
        ckw = {"read_speed_limit": rate, "write_speed_limit": rate}
    backend = case.get("backend", "memory")
    scratch = None
    if backend != "memory":
        import os
        import tempfile

        from checks import c18

        scratch = tempfile.mkdtemp(prefix="c01_", dir=c18.SCRATCH_ROOT)
        os.makedirs(os.path.join(scratch, "d"))
        for u in users:
            u["base_path"] = scratch
    srv["users"] = users
    sc = {"seed": case["seed"], "server": srv, "net": net, "fs": {"delay": case.get("fs_delay"), "short_reads": case.get("short_reads", False), "tree": {"/d": None}, "backend": backend}}
    viol = []
    info = {"transfers": 0, "bytes": 0, "observer_calls": 0, "co_readers": 0, "co_overlapped": 0}
    world = scenario.setup_world(sc, max_steps=3_000_000)
    if scratch:
        world.digest_masks = [scratch]
    try:
        return _run_transfers(case, world, sc, net, b, ckw, viol, info, scratch)
    finally:
        if scratch:
            import shutil

            shutil.rmtree(scratch, ignore_errors=True)


def _run_transfers(case, world, sc, net, b, ckw, viol, info, scratch):
    with world:
        server = scenario.finish_setup(world, sc)
        if scratch:
            from checks import c18

            world.snapshot = lambda: c18.fs_snapshot(scratch)
        model = {}
        subject_of = lambda op: f"{op['kind']}"

        def mk_client(**kw):
            return aioftp.Client(path_io_factory=aioftp.MemoryPathIO, passive_commands=tuple(case["passive"]), **kw)

        async def observer(stop):
            c = mk_client()
            await c.connect("127.0.0.1", 2121)
            await c.login()
            try:
                while not stop.is_set():
                    for name in ("d/f0", "d/f1"):
                        try:
                            await c.stat(name)
                        except aioftp.StatusCodeError:
                            pass
                        info["observer_calls"] += 1
                    await c.list("d")
                    await c.list("d", raw_command="LIST")
                    await asyncio.sleep(0.0007)
                await c.quit()
            except (ConnectionError, aioftp.StatusCodeError, asyncio.TimeoutError):
                pass

        async def verify_second_session(c2, path, where):
            want = model.get(path)
            if want is None:
                return
            async with c2.download_stream(path) as s:
                got = await s.read()
            if got != want:
                viol.append({"clause": "second-session-download-differs", "subject": where, "detail": f"{path}: second session downloaded {len(got)} bytes, model has {len(want)}; first difference at {_first_diff(got, want)}"})
            st = await c2.stat(path)
            if st.get("size") != str(len(want)):
                viol.append({"clause": "stat-size-differs", "subject": where, "detail": f"{path}: MLST size {st.get('size')} != {len(want)}"})
            for raw in ("MLSD", "LIST"):
                for pth, inf in await c2.list("d", raw_command=raw):
                    if pth.name == pathlib.PurePosixPath(path).name and inf.get("size") != str(len(want)):
                        viol.append({"clause": "listing-size-differs", "subject": f"{where}:{raw}", "detail": f"{path}: {raw} size {inf.get('size')} != {len(want)}"})

        co_clients = []

        async def co_reader(c, path, spec, want, span):
            await asyncio.sleep(spec["delay"])
            o = spec["offset"]
            got = bytearray()
            t0 = world.loop.time()
            async with c.download_stream(path, offset=o) as s:
                async for blk in s.iter_by_block(spec["n"]):
                    got += blk
            info["transfers"] += 1
            info["bytes"] += len(got)
            info["co_readers"] += 1
            if span[1] is None or t0 < span[1]:
                info["co_overlapped"] += 1
            if bytes(got) != want[o:]:
                viol.append({"clause": "downloaded-bytes-differ", "subject": "retr:concurrent-readers", "detail": f"{path} from offset {o} while another session downloads the same file: got {len(got)} bytes, expected {len(want[o:])}; first difference at {_first_diff(bytes(got), want[o:])} (B={b})"})

        async def main():
            await server.start("127.0.0.1", 2121)
            c1 = mk_client(**ckw)
            c2 = mk_client()
            await c1.connect("127.0.0.1", 2121)
            await c1.login()
            await c2.connect("127.0.0.1", 2121)
            await c2.login()
            stop = asyncio.Event()
            obs_task = world.spawn(observer(stop), "obs") if case.get("observer") else None
            for op in case["ops"]:
                rnd = random.Random(op["pseed"])
                k = op["kind"]
                where = subject_of(op)
                if k in ("stor", "appe", "stor_rest", "appe_rest"):
                    data = make_payload(rnd, op["content"], op["len"])
                    off = op.get("offset", 0)
                    fn = c1.upload_stream if k.startswith("stor") else c1.append_stream
                    async with fn(op["path"], offset=off) as stream:
                        pos = 0
                        while pos < len(data):
                            n = op["chunk"] if op["chunk"] < (1 << 20) else len(data)
                            if rnd.random() < 0.3:
                                n = max(1, rnd.randint(1, n))
                            await stream.write(data[pos : pos + n])
                            pos += n
                    # the completion reply has just been received (no await since then)
                    apply_model(model, op, data)
                    snap = world.snapshot().get("/" + op["path"])
                    want = model[op["path"]]
                    info["transfers"] += 1
                    info["bytes"] += len(data)
                    if snap != want:
                        viol.append({"clause": "stored-bytes-differ-at-completion-reply", "subject": where, "detail": f"{op['path']}: backend holds {None if snap is None else len(snap)} bytes at the moment the completion reply arrived, model {len(want)}; first difference at {_first_diff(snap or b'', want)} (B={b}, len={op['len']}, offset={off})"})
                        model[op["path"]] = snap if snap is not None else b""
                    await verify_second_session(c2, op["path"], where)
                else:
                    want = model.get(op["path"], b"")
                    off = op.get("offset", 0)
                    exp = want[off:]
                    got = bytearray()
                    span = [None, None]
                    co_tasks = []
                    for ci, spec in enumerate(op.get("co") or ()):
                        if ci >= len(co_clients):
                            c = mk_client()
                            await c.connect("127.0.0.1", 2121)
                            await c.login()
                            co_clients.append(c)
                        co_tasks.append(world.spawn(co_reader(co_clients[ci], op["path"], spec, want, span), f"co{ci}"))
                    span[0] = world.loop.time()
                    async with c1.download_stream(op["path"], offset=off) as stream:
                        if op["read"] == "all":
                            got += await stream.read()
                        elif op["read"] == "n":
                            while True:
                                blk = await stream.read(op["n"])
                                if not blk:
                                    break
                                got += blk
                        else:
                            async for blk in stream.iter_by_block(op["n"]):
                                got += blk
                    span[1] = world.loop.time()
                    if co_tasks:
                        await asyncio.wait(co_tasks, timeout=1e4)
                        for t in co_tasks:
                            if t.done() and not t.cancelled() and t.exception() is not None:
                                raise t.exception()
                    info["transfers"] += 1
                    info["bytes"] += len(got)
                    if bytes(got) != exp:
                        viol.append({"clause": "downloaded-bytes-differ", "subject": f"retr:{'rest' if off else 'whole'}", "detail": f"{op['path']} from offset {off}: got {len(got)} bytes, expected {len(exp)}; first difference at {_first_diff(bytes(got), exp)} (B={b}, read={op['read']}/{op['n']})"})
            stop.set()
            if obs_task is not None:
                await asyncio.wait([obs_task], timeout=100)
            await c1.quit()
            await c2.quit()
            for c in co_clients:
                await c.quit()
            await asyncio.sleep(1)
            await common.close_server(server)

        world.run(main())
        gc.collect()
        if world.outcome == "deadlock":
            viol.append({"clause": "hang", "subject": "deadlock", "detail": "simulation deadlocked"})
        elif world.outcome == "budget":
            pass
        elif world.outcome != "ok":
            err = world.error
            if isinstance(err, (aioftp.StatusCodeError, ConnectionError, asyncio.TimeoutError)):
                viol.append({"clause": "transfer-failed", "subject": type(err).__name__, "detail": f"a fault-free transfer raised {err!r}"[:300]})
            else:
                raise common.HarnessError(f"scenario failed: {world.outcome}: {world.error!r}")
        res = {
            "digest": world.digest(sorted((k, len(v)) for k, v in model.items())),
            "nontrivial": info["transfers"] > 0,
            "vtime": world.loop.time() - 1000.0,
            "events": world.net.seq,
            "steps": world.loop.steps,
            "outcome": world.outcome,
            "counters": {"transfers": info["transfers"], "bytes_moved": info["bytes"], "probe.observer_calls_during_transfers": info["observer_calls"], "probe.concurrent_readers_of_one_file": info["co_readers"], "probe.concurrent_readers_overlapping_in_time": info["co_overlapped"], "probe.short_reads": int(bool(case.get("short_reads"))), "probe.throttled": int(bool(case.get("throttle"))), "probe.restart_offset_ops": sum(1 for o in case["ops"] if o.get("offset"))},
            "groups": {"block_size": {str(b): 1}, "seg_mode": {net["seg_mode"]: 1}, "backend": {case.get("backend", "memory"): 1}},
            "violations": _dedupe(viol),
        }
        if case.get("want_sample"):
            res["sample"] = {"case": case, "net": net, "final_sizes": {k: len(v) for k, v in model.items()}}
    return res


def run_reset_case(case):
    """Raw peer uploads and resets the data connection after `sent` bytes were written:
    a completion reply may only be given if the stored file is exactly what was sent."""
    b = case["B"]
    rng = random.Random(case["seed"] * 7919 + 41)
    net = scenario.random_net(rng, allow_small_pipe=True)
    if case.get("net"):
        net.update(case["net"])
    srv = {"block_size": b, "wait_future_timeout": 5.0}
    if case.get("slow_server"):
        srv["read_speed_limit"] = max(20 * b, 500)
    sc = {"seed": case["seed"], "server": srv, "net": net, "fs": {"delay": case.get("fs_delay"), "tree": {"/d": None, "/d/old": 3 * b + 1}}}
    viol = []
    info = {}
    world = scenario.setup_world(sc)
    with world:
        server = scenario.finish_setup(world, sc)
        peer = RawPeer(world, "s0", reply_timeout=300.0)
        data = scenario.payload("up", case["len"])
        verb = case.get("verb", "STOR")

        async def main():
            await server.start("127.0.0.1", 2121)
            await peer.connect()
            await peer.login()
            await peer.passive(case.get("passive", "EPSV"))
            dr, dw = await peer.data_connect()
            target = "STOR /d/new" if verb == "STOR" else "APPE /d/old"
            code, _ = await peer.cmd(target)
            if code[0] != "1":
                return
            step = max(1, case.get("chunk", b))
            pos = 0
            mid = case.get("midcmd")
            try:
                while pos < len(data):
                    dw.write(data[pos : pos + step])
                    pos += step
                    if case.get("drain", True):
                        await dw.drain()
                    if mid and pos >= len(data) // 2:
                        # a command on the control channel in the middle of the upload (the server
                        # serves other commands while a transfer runs); the upload then goes on
                        await asyncio.sleep(0.01)
                        info["midcmd_reply"] = (await peer.cmd(mid))[0]
                        mid = None
            except ConnectionError:
                pass
            if case.get("pause"):
                await asyncio.sleep(case["pause"])
            if case.get("midcmd"):
                dw.close()  # orderly end of data: the whole upload must be stored
            else:
                dw.transport.abort()  # RST: what is still unsent / in flight may be lost
            replies = []
            try:
                while True:
                    replies.append((await peer.reply(30.0))[0])
            except (ReplyTimeout, PeerGone):
                pass
            info["replies"] = replies
            snap = world.snapshot()
            if any(r[0] == "2" for r in replies):
                if verb == "STOR":
                    got, want = snap.get("/d/new"), data
                else:
                    got, want = snap.get("/d/old"), scenario.payload("/d/old", 3 * b + 1) + data
                info["completed"] = True
                if got != want:
                    how = f"'{case['midcmd']}' (answered {info.get('midcmd_reply')}) was sent on the control channel in mid-upload, data then closed normally" if case.get("midcmd") else "data connection reset by the peer"
                    viol.append({"clause": "completion-reply-for-truncated-upload", "subject": verb + (":midcmd" if case.get("midcmd") else ""), "detail": f"{how}; server replied {replies} but stored {None if got is None else len(got)} of {len(want)} bytes"})
            if (case.get("midcmd") or "").startswith("REST") and info.get("midcmd_reply") == "350" and info.get("completed"):
                # the REST answered in mid-upload belongs to the next transfer: a download over the
                # same listener, sent right after the upload's completion reply, starts there
                off = int(case["midcmd"].split()[1])
                try:
                    await peer.data_connect()
                    code, _ = await peer.cmd("RETR /d/new" if verb == "STOR" else "RETR /d/old")
                    if code[0] == "1":
                        got2, _how = await peer.recv_all(timeout=100.0)
                        peer.data_close()
                        fin2 = (await peer.reply(100.0))[0]
                        whole = snap.get("/d/new") if verb == "STOR" else snap.get("/d/old")
                        info["rest_followup"] = 1
                        if fin2[0] == "2" and whole is not None and got2 != whole[off:]:
                            viol.append({"clause": "downloaded-bytes-differ", "subject": "retr:rest-sent-in-mid-upload", "detail": f"'{case['midcmd']}' (350) was sent while the {verb} was running, the RETR right after its completion reply delivered {len(got2)} bytes, expected the {len(whole) - off} bytes from offset {off}"})
                except (OSError, ReplyTimeout, PeerGone):
                    pass
            peer.close()
            await asyncio.sleep(1)
            await common.close_server(server)

        world.run(main())
        gc.collect()
        if world.outcome not in ("ok", "budget", "deadlock"):
            raise common.HarnessError(f"scenario failed: {world.outcome}: {world.error!r}")
        res = {
            "digest": world.digest([tuple(x[1:]) for x in peer.transcript]),
            "nontrivial": True,
            "vtime": world.loop.time() - 1000.0,
            "events": world.net.seq,
            "steps": world.loop.steps,
            "outcome": world.outcome,
            "counters": {"faults.data_reset_mid_upload": int(not case.get("midcmd")), "probe.command_in_mid_upload": int(bool(info.get("midcmd_reply"))), "probe.completion_after_reset": int(bool(info.get("completed"))), "probe.rest_in_mid_upload_then_download": info.get("rest_followup", 0)},
            "violations": _dedupe(viol),
        }
        if case.get("want_sample"):
            res["sample"] = {"case": case, "replies": info.get("replies")}
    return res


def gen_late_case(seed):
    rnd = random.Random(seed * 4243 + 7)
    b = rnd.choice([7, 16, 64])
    return {"mode": "late", "seed": seed, "B": b, "verb": rnd.choice(["RETR", "RETR", "STOR", "APPE"]), "len": rnd.choice([1, b, 3 * b + 1, 10 * b]), "between": rnd.choice([["CWD /e"], ["CWD /e"], ["CDUP"], ["CWD /e", "PWD"], ["USER anonymous"], ["NOOP"]]), "passive": rnd.choice(["EPSV", "PASV"]), "fs_delay": rnd.choice([None, [0.0005, 0.004]])}


def run_late_case(case):
    """The transfer command is accepted (1xx) while the data connection is not made yet; other
    commands - CWD elsewhere, CDUP, a fresh login - are answered, and only then the peer
    connects.  What is transferred is the file the command named when it was sent: a relative
    name must not be read again against the working directory of a later moment."""
    b = case["B"]
    rng = random.Random(case["seed"] * 7919 + 47)
    net = scenario.random_net(rng, allow_small_pipe=False)
    mine = scenario.payload("/d/f", 5 * b + 3)
    other = scenario.payload("/e/f", 4 * b + 1)
    sc = {"seed": case["seed"], "server": {"block_size": b, "wait_future_timeout": 50.0}, "net": net, "fs": {"delay": case.get("fs_delay"), "tree": {"/d": None, "/e": None, "/d/f": 5 * b + 3, "/e/f": 4 * b + 1, "/f": 2 * b}}}
    viol = []
    info = {}
    world = scenario.setup_world(sc)
    with world:
        server = scenario.finish_setup(world, sc)
        peer = RawPeer(world, "s0", reply_timeout=300.0)
        up = scenario.payload("up", case["len"])
        verb = case["verb"]

        async def main():
            await server.start("127.0.0.1", 2121)
            await peer.connect()
            await peer.login()
            await peer.cmd("CWD /d")
            await peer.passive(case.get("passive", "EPSV"))
            code, _ = await peer.cmd(f"{verb} f")
            if code[0] != "1":
                info["refused"] = code
                return
            info["between"] = [(await peer.cmd(line))[0] for line in case["between"]]
            try:
                await peer.data_connect()
            except OSError:
                info["no_data_connection"] = True
                return
            if verb == "RETR":
                got, how = await peer.recv_all(timeout=100.0)
                peer.data_close()
            else:
                await peer.send_all(up)
                peer.data_close()
            try:
                final = (await peer.reply(100.0))[0]
            except (ReplyTimeout, PeerGone):
                final = None
            info["final"] = final
            snap = world.snapshot()
            if verb == "RETR":
                if final and final[0] == "2" and got != mine:
                    what = "the bytes of /e/f" if got == other else ("the bytes of /f" if got == scenario.payload("/f", 2 * b) else f"{len(got)} other bytes")
                    viol.append({"clause": "downloaded-bytes-differ", "subject": "retr:commands-before-data-connection", "detail": f"CWD /d, RETR f (150), then {case['between']} (answered {info['between']}), then the data connection: received {what} instead of the {len(mine)} bytes of /d/f"})
            else:
                want = up if verb == "STOR" else mine + up
                if final and final[0] == "2" and (snap.get("/d/f") != want or snap.get("/e/f") != other or snap.get("/f") != scenario.payload("/f", 2 * b)):
                    changed = [k for k, v in (("/d/f", want), ("/e/f", other), ("/f", scenario.payload("/f", 2 * b))) if snap.get(k) != v]
                    viol.append({"clause": "stored-bytes-differ-at-completion-reply", "subject": f"{verb.lower()}:commands-before-data-connection", "detail": f"CWD /d, {verb} f (150), then {case['between']} (answered {info['between']}), then the data connection and {len(up)} bytes: reply {final}, but the files that differ from what this upload should have produced are {changed}"})
            peer.close()
            await asyncio.sleep(1)
            await common.close_server(server)

        world.run(main())
        gc.collect()
        if world.outcome not in ("ok", "budget", "deadlock"):
            raise common.HarnessError(f"scenario failed: {world.outcome}: {world.error!r}")
        res = {
            "digest": world.digest([tuple(x[1:]) for x in peer.transcript]),
            "nontrivial": info.get("final") is not None,
            "vtime": world.loop.time() - 1000.0,
            "events": world.net.seq,
            "steps": world.loop.steps,
            "outcome": world.outcome,
            "counters": {"probe.commands_between_mark_and_data_connection": len(info.get("between") or ())},
            "violations": _dedupe(viol),
        }
        if case.get("want_sample"):
            res["sample"] = {"case": case, "info": {k: v for k, v in info.items()}}
    return res


def _first_diff(a, b):
    n = min(len(a), len(b))
    for i in range(n):
        if a[i] != b[i]:
            return i
    return n if len(a) != len(b) else None


def _dedupe(viol):
    seen = set()
    out = []
    for v in viol:
        key = (v["clause"], v["subject"])
        if key not in seen:
            seen.add(key)
            out.append(v)
    return out


def gen_reset_case(seed):
    rnd = random.Random(seed * 4243 + 1)
    b = rnd.choice([7, 16, 64, 100])
    return {"mode": "reset", "seed": seed, "B": b, "len": rnd.choice([b, 3 * b + 1, 10 * b, 40 * b]), "chunk": rnd.choice([1, b, 3 * b, 1 << 20]), "drain": rnd.random() < 0.6, "pause": rnd.choice([0, 0, 0.0005, 0.01]), "verb": rnd.choice(["STOR", "APPE"]), "slow_server": rnd.random() < 0.5, "fs_delay": rnd.choice([None, [0.0005, 0.004]]), "passive": rnd.choice(["EPSV", "PASV"]), "midcmd": rnd.choice([None, None, "EPSV", "PASV", "NOOP", "PWD", "TYPE I", "MLST /d", "REST 3", "REST 3"])}


def confirm(case, violation):
    r = run_case(case)
    return any(v["clause"] == violation["clause"] and v["subject"] == violation["subject"] for v in r["violations"])


def minimise(case, violation):
    import copy

    def bad(c):
        try:
            r = run_case(c)
        except Exception:
            return False
        return any(v["clause"] == violation["clause"] and v["subject"] == violation["subject"] for v in r["violations"])

    cur = copy.deepcopy(case)
    cur.pop("want_sample", None)
    if cur.get("mode") in ("reset", "late"):
        return cur, violation
    budget = 60
    changed = True
    while changed and budget > 0:
        changed = False
        for i in range(len(cur["ops"]) - 1, -1, -1):
            if len(cur["ops"]) <= 1:
                break
            trial = copy.deepcopy(cur)
            del trial["ops"][i]
            budget -= 1
            if bad(trial):
                cur, changed = trial, True
        for key, val in (("observer", False), ("throttle", None), ("fs_delay", None), ("short_reads", False), ("net", {"seg_mode": "whole", "latency": [0.001, 0.001], "capacity": 262144, "high_water": 65536, "send_delay": 0.0, "accept_delay": [0.0, 0.0]})):
            if cur.get(key) == val:
                continue
            trial = copy.deepcopy(cur)
            trial[key] = val
            budget -= 1
            if bad(trial):
                cur, changed = trial, True
    return cur, violation


def selftest_cases(n):
    return [gen_case(30_000 + i) for i in range(n - n // 4)] + [gen_reset_case(31_000 + i) for i in range(n // 4)] + [gen_late_case(32_000 + i) for i in range(n // 8)]


def main(argv=None):
    a = common.tier_and_seed(argv)
    if a.replay:
        import json

        doc = json.load(open(a.replay))
        r = run_case(doc["case"])
        hit = [v for v in r["violations"] if v["clause"] == doc["clause"]]
        if hit:
            print(f"reproduced: {hit[0]}")
            print(f"VIOLATION property={PROP} replay={a.replay}")
            return 1
        print("not reproduced")
        return 0
    quick = a.tier == "quick"
    ev = common.Evidence(PROP, a.tier, a.seed, "exploration", "seeded swarm: block size in {1,2,7,16,64,100,1000,8191,8192,8193,65536} x 1..4 transfers (STOR, APPE, REST+STOR, REST+APPE, RETR whole / from offset) x payload length around block multiples x content kind (ramp, position-stamped, CR/LF/NUL/IAC runs, random) x client write chunking / read pattern x EPSV/PASV x throttle level x network (segmentation incl. 1-byte dribble, latency, pipe capacity down to 1 byte) x backend latency / short reads x concurrent observer session x 0..2 further sessions downloading the same file during a RETR; plus raw uploads whose data connection is reset; plus raw transfers of a relative name with CWD / CDUP / USER answered between the 1xx mark and the data connection; non-trivial = at least one transfer completed; distinct = distinct run digests")
    rep = common.Reporter(PROP, ev)
    deadline = time.time() + (a.budget or (75 if quick else 1500))
    n = 2500 if quick else 300000
    with common.Pool() as pool:
        def gen():
            for i in range(n):
                yield gen_case(a.seed * 1_000_000 + i)
                if i % 5 == 0:
                    yield gen_reset_case(a.seed * 1_000_000 + i)
                if i % 10 == 3:
                    yield gen_late_case(a.seed * 1_000_000 + i)

        cases = common.with_samples(gen(), 3)
        for case, res in pool.map(run_case, cases, deadline=deadline, chunksize=4):
            ev.add_run(res)
            for v in res["violations"]:
                rep.add(case, v)
        ev.extra["planned"] = n + n // 5
        ev.assumptions = [
            "REST+STOR/APPE on a missing file is backend-dependent (see C18) and is not generated",
            "a second session downloads / stats / lists only after the completion reply; a third session stats and lists (never downloads) the same paths during the transfers; further sessions download a file only while another download of the same file (never an upload to it) is in progress",
            "backend content is read through a snapshot of the backend (MemoryPathIO state or the scratch directory), not through FTP",
        ]
        code = rep.finish(minimise=minimise, confirm=confirm)
    ev.write()
    print(f"{PROP}: {ev.evaluations} runs, {len(ev.nontrivial_digests)} distinct non-trivial, {ev.violations} violation classes, exit {code}")
    return code
