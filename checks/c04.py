"""C04 - read/write permissions follow the nearest-ancestor rule on the resolved path.

Users with generated permission tables (1..6 entries over a 3-level universe, every
readable/writable combination, unordered, nested, overlapping, duplicated); a fixed tree;
seeded histories of every permission-checked verb with targets spelled canonically and
through aliases ('..' detours, './', '//', trailing '/', relative from several working
directories).  Oracle: an independent longest-prefix lookup on the model-resolved path
(simftp/model.py): denied -> 550 and tree / working directory unchanged; allowed -> never
the 'permission denied' refusal; duplicate entries with different flags make both
outcomes acceptable.
"""

from __future__ import annotations

import asyncio
import gc
import random
import time

from checks import common
from simftp import conform, scenario
from simftp import model as M
from simftp.peers import RawPeer

PROP = "C04"
TREE = {"/": None, "/f": b"root-file", "/pub2": None, "/pub2/q": b"qq", "/pubs": None, "/pub-x": b"px", "/priv.bak": None, "/priv.bak/z": b"zz", "/pub/ab": None, "/pub/ab/c": b"cc", "/pub": None, "/pub/a": None, "/pub/a/x": b"xxxxxxxxxx", "/pub/a/e": None, "/pub/b": b"bbbb", "/priv": None, "/priv/s": None, "/priv/s/t": b"tttt", "/priv/k": b"kk"}
PERM_PATHS = ["/pub2", "/priv.bak", "/pub/ab", "/", "/pub", "/pub/a", "/priv", "/priv/s", "/pub/a/x", "/pub/b", "/nonexistent", "/pub/", "/priv/s/t", "/pub/a/e"]
LOCS = ["/pub2", "/pub2/q", "/pubs", "/pub-x", "/priv.bak", "/priv.bak/z", "/pub/ab", "/pub/ab/c", "/pub2/new", "/priv.bak/new", "/", "/f", "/pub", "/pub/a", "/pub/a/x", "/pub/a/e", "/pub/b", "/priv", "/priv/s", "/priv/s/t", "/priv/k", "/pub/new", "/priv/new", "/priv/s/new", "/pub/a/new", "/new"]
READ_VERBS = ["CWD", "MLST", "LIST", "MLSD", "RETR", "CDUP"]
WRITE_VERBS = ["MKD", "RMD", "DELE", "RNFR", "RNTO", "STOR", "APPE"]


def spell(rnd, target, cwd):
    """one of several spellings of the absolute location `target` as seen from `cwd`"""
    k = rnd.randrange(7)
    if k == 0:
        return target
    if k == 1:
        return "/" + target.strip("/").replace("/", "//") if target != "/" else "//"
    if k == 2:  # detour through a sibling
        parts = target.strip("/").split("/") if target != "/" else []
        if parts:
            return "/" + "/".join(parts[:-1] + ["zz", "..", parts[-1]])
        return "/pub/.."
    if k == 3:
        return "/priv/../" + target.strip("/") if target != "/" else "/priv/.."
    if k == 4:
        return target + "/" if target != "/" else "/./"
    # relative from cwd
    c = [p for p in cwd.strip("/").split("/") if p]
    t = [p for p in target.strip("/").split("/") if p]
    i = 0
    while i < len(c) and i < len(t) and c[i] == t[i]:
        i += 1
    rel = [".."] * (len(c) - i) + t[i:]
    s = "/".join(rel) if rel else "."
    if k == 6:
        s = "./" + s
    return s


def gen_case(seed):
    rnd = random.Random(seed * 8191 + 9)
    perms = []
    for _ in range(rnd.randint(1, 6)):
        perms.append([rnd.choice(PERM_PATHS), rnd.random() < 0.6, rnd.random() < 0.5])
    if rnd.random() < 0.3 and perms:
        p = rnd.choice(perms)
        perms.append([p[0], not p[1], not p[2]])  # duplicate path, other flags
    rnd.shuffle(perms)
    ops = [["USER", "u"], ["PASV", ""]]
    cwd = "/"
    for _ in range(rnd.choice([4, 8, 14, 22])):
        x = rnd.random()
        target = rnd.choice(LOCS)
        if x < 0.2:
            v = "CWD"
        elif x < 0.5:
            v = rnd.choice(READ_VERBS)
        else:
            v = rnd.choice(WRITE_VERBS)
        if v == "CDUP":
            ops.append(["CDUP", ""])
            continue
        arg = spell(rnd, target, cwd)
        if v == "RNTO":
            ops.append(["RNFR", spell(rnd, rnd.choice(LOCS), cwd)])
        if v in M.TRANSFER:
            if rnd.random() < 0.5:
                ops.append([rnd.choice(["PASV", "EPSV"]), ""])
            o = {"connect": rnd.choice(["before", "after"])}
            if o["connect"] == "after" and rnd.random() < 0.4:
                # the working directory changes between the 1xx mark and the data connection: the
                # transfer keeps the location whose permission was looked up
                o["between"] = [rnd.choice([["CWD", spell(rnd, rnd.choice(LOCS), cwd)], ["CDUP", ""]]) for _ in range(rnd.randint(1, 2))]
            ops.append([v, arg, o])
        else:
            ops.append([v, arg])
        if v == "CWD":
            cwd = target  # best guess; only used to build relative spellings
    return {"seed": seed, "perms": perms, "ops": ops}


def run_case(case):
    rng = random.Random(case["seed"] * 7919 + 53)
    net = scenario.random_net(rng, allow_small_pipe=False)
    net["latency"] = [0.0005, 0.001]
    sc = {"seed": case["seed"], "server": {"block_size": 16, "wait_future_timeout": 5.0, "users": [{"login": "u", "permissions": case["perms"]}]}, "net": net, "fs": {"delay": None}}
    viol = []
    info = {"denied": 0, "allowed": 0}
    world = scenario.setup_world(sc)
    with world:
        server = scenario.finish_setup(world, sc)
        world.populate({k: v for k, v in TREE.items() if k != "/"})
        users = [M.UserSpec("u", None, permissions=[tuple(p) for p in case["perms"]])]
        sess = M.Session(users, dict(TREE))
        peer = RawPeer(world, "s0", reply_timeout=100.0)
        before = {}

        def on_step(st, phase, s):
            if phase == "before":
                before["cwd"] = s.cwd
                before["tree"] = dict(s.tree)
                before["snap"] = world.snapshot()
            else:
                v = st.op[0].upper()
                exp = st.expect
                if st.final is None or not hasattr(exp, "denied_possible"):
                    return
                text = " ".join(st.lines or [])
                denied_reply = st.final == "550" and "permission denied" in text
                only_denied = exp.denied_possible and exp.codes == {"550"}
                if only_denied and exp.note == "":
                    info["denied"] += 1
                    if world.snapshot() != before["snap"]:
                        viol.append({"clause": "refused-request-changed-tree", "subject": v, "detail": f"{st.op[:2]} must be refused (550) but the tree changed (reply {st.final})"})
                if not exp.denied_possible:
                    info["allowed"] += 1
                    if denied_reply:
                        viol.append({"clause": "denied-although-allowed", "subject": v, "detail": f"{st.op[:2]} from {before['cwd']}: 'permission denied' although the nearest-ancestor entry allows it (table {case['perms']})"})

        async def main():
            await server.start("127.0.0.1", 2121)
            await peer.connect()
            steps = await conform.drive(peer, sess, [tuple(o) for o in case["ops"]], world=world, on_step=on_step)
            info["steps"] = steps
            peer.close()
            await asyncio.sleep(1)
            await common.close_server(server)

        world.run(main())
        gc.collect()
        if world.outcome not in ("ok", "budget", "deadlock"):
            raise common.HarnessError(f"scenario failed: {world.outcome}: {world.error!r}")
        n = 0
        for i, st in enumerate(info.get("steps", [])):
            if st.final is not None:
                n += 1
            for kind, text in st.problems:
                if kind == "not-run":
                    continue
                viol.append({"clause": kind, "subject": st.op[0].upper(), "detail": f"step {i}: {text}; permission table {case['perms']}", "step": i})
        seen = set()
        out = []
        for v in viol:
            key = (v["clause"], v["subject"])
            if key not in seen:
                seen.add(key)
                out.append(v)
        res = {
            "digest": world.digest([tuple(x[1:]) for x in peer.transcript]),
            "nontrivial": info["denied"] > 0 and info["allowed"] > 0,
            "vtime": world.loop.time() - 1000.0,
            "events": world.net.seq,
            "steps": world.loop.steps,
            "outcome": world.outcome,
            "counters": {"commands_checked": n, "requests_that_must_be_denied": info["denied"], "requests_that_must_not_be_denied": info["allowed"], "probe.commands_between_mark_and_data_connection": sum(st.between for st in info.get("steps", []))},
            "violations": out,
        }
        if case.get("want_sample"):
            res["sample"] = {"case": case, "transcript": [list(x) for x in peer.transcript][:30]}
    return res


def confirm(case, violation):
    r = run_case(case)
    return any(v["clause"] == violation["clause"] and v["subject"] == violation["subject"] for v in r["violations"])


def minimise(case, violation):
    import copy

    def bad(c):
        try:
            r = run_case(c)
        except Exception:
            return False
        return any(v["clause"] == violation["clause"] and v["subject"] == violation["subject"] for v in r["violations"])

    cur = copy.deepcopy(case)
    cur.pop("want_sample", None)
    budget = 120
    i = len(cur["ops"]) - 1
    while i >= 1 and budget > 0:
        trial = copy.deepcopy(cur)
        del trial["ops"][i]
        budget -= 1
        if bad(trial):
            cur = trial
        i -= 1
    i = len(cur["perms"]) - 1
    while i >= 0 and budget > 0:
        trial = copy.deepcopy(cur)
        del trial["perms"][i]
        budget -= 1
        if trial["perms"] and bad(trial):
            cur = trial
        i -= 1
    return cur, violation


def selftest_cases(n):
    return [gen_case(70_000 + i) for i in range(n)]


def main(argv=None):
    a = common.tier_and_seed(argv)
    if a.replay:
        import json

        doc = json.load(open(a.replay))
        r = run_case(doc["case"])
        hit = [v for v in r["violations"] if v["clause"] == doc["clause"]]
        if hit:
            print(f"reproduced: {hit[0]}")
            print(f"VIOLATION property={PROP} replay={a.replay}")
            return 1
        print("not reproduced")
        return 0
    quick = a.tier == "quick"
    ev = common.Evidence(PROP, a.tier, a.seed, "exploration", "seeded permission tables (1..6 entries over an 11-path universe incl. nested, overlapping, duplicated, file-level and dangling entries, all r/w combinations) x seeded histories of permission-checked verbs (CWD CDUP LIST MLSD MLST RETR / MKD RMD DELE RNFR RNTO STOR APPE) with 7 spellings per target from changing working directories; non-trivial = the run contained both a request that must be denied and one that must not; distinct = distinct run digests Transfers may have CWD/CDUP sent between their 1xx mark and the data connection.")
    rep = common.Reporter(PROP, ev)
    deadline = time.time() + (a.budget or (60 if quick else 1200))
    n = 4000 if quick else 500000
    with common.Pool() as pool:
        cases = common.with_samples((gen_case(a.seed * 1_000_000 + i) for i in range(n)), 2)
        for case, res in pool.map(run_case, cases, deadline=deadline, chunksize=8):
            ev.add_run(res)
            for v in res["violations"]:
                rep.add(case, v)
        ev.assumptions = ["the oracle is the longest-prefix lookup of simftp/model.py on the model-resolved path (default: allowed)", "no fault is injected: the statement quantifies over inputs, configurations and histories only"]
        code = rep.finish(minimise=minimise, confirm=confirm)
    ev.write()
    print(f"{PROP}: {ev.evaluations} runs, {len(ev.nontrivial_digests)} distinct non-trivial, {ev.violations} violation classes, exit {code}")
    return code
