"""C06 - reply framing: what the server encodes is what the client decodes.

A Server subclass gets an ECHO <i> verb whose handler enqueues connection.response(code,
lines, list_flag) for generated replies: the *real* response_writer -> write_response ->
write_line -> simulated network (seeded segmentation incl. 1-byte dribble, i.e. splits inside
CRLF and inside multi-byte characters, latency, narrow pipes) -> *real*
Client.parse_response / command.  1..6 replies per run so that a mis-framed reply
desynchronises its successor; both encodings; preliminary (1xx) + final pairs through the
wait/expect loop.  Negative cases through a scripted fake server: a continuation line with
another code must raise StatusCodeError and the next genuine reply must still be decoded.
Pure sub-check (declared as such): Code.matches against the digit-for-digit predicate for
all codes 100..599 x all masks over {0-9, x, X, *, -, ?, _, .} of length 1..3.
"""

from __future__ import annotations

import asyncio
import gc
import itertools
import random
import time

from checks import common
from simftp import scenario
from simftp.world import aioftp

PROP = "C06"
ALPHA_ASCII = "abcXYZ 019-_.;=\"'()[]|\\/%:*"
# characters that some text APIs (str.splitlines, str.split) treat as line boundaries or white
# space although they do not end a reply line: VT, FF, FS, GS, RS, US - and NEL, LS, PS where
# the encoding has them
ODD = "\x0b\x0c\x1c\x1d\x1e\x1f"
ALPHA_U8 = ALPHA_ASCII + "äöüßéñ€жщ中文🙂" + ODD + "\x85\u2028\u2029\xa0"
ALPHA_L1 = ALPHA_ASCII + "äöüßéñ©®" + ODD + "\x85\xa0"
ALPHA_CP1251 = ALPHA_ASCII + "жщяЁ№" + ODD


def gen_line(rnd, alpha):
    k = rnd.random()
    if k < 0.12:
        return ""
    if k < 0.2:
        return rnd.choice(["250 ok", "250-more", "226", "150", "550-x", "-", "--", "- x", " lead", "  two", "2xx", "12", "123", "1234 tail", "999-", "000 ", "250", "250 "])
    if k < 0.25:
        n = rnd.choice([200, 1000, 2000])
    else:
        n = rnd.randint(1, 30)
    s = "".join(rnd.choice(alpha) for _ in range(n))
    return s.replace("\r", "").replace("\n", "")


def gen_reply(rnd, alpha):
    code = str(rnd.choice([rnd.randint(100, 599), rnd.choice([200, 211, 220, 226, 250, 257, 331, 425, 426, 450, 500, 550])]))
    nlines = rnd.choice([1, 1, 1, 2, 2, 3, 4, 6])
    lines = [gen_line(rnd, alpha) for _ in range(nlines)]
    lst = nlines >= 2 and rnd.random() < 0.5
    return [code, lines, lst]


def gen_case(seed):
    rnd = random.Random(seed * 4409 + 1)
    enc = rnd.choice(["utf-8", "utf-8", "latin-1", "cp1251"])
    alpha = {"utf-8": ALPHA_U8, "latin-1": ALPHA_L1, "cp1251": ALPHA_CP1251}[enc]
    replies = []
    for _ in range(rnd.randint(1, 6)):
        r = gen_reply(rnd, alpha)
        if rnd.random() < 0.15 and r[0][0] != "1":
            # a preliminary reply precedes the final one (wait_codes path)
            pre = gen_reply(rnd, alpha)
            pre[0] = "1" + pre[0][1:]
            replies.append({"pre": pre, "final": r})
        else:
            replies.append({"final": r})
    # the data-transfer block size has no business in reply framing: vary it (and, rarely, send
    # a line longer than the default 8192) so that framing never silently depends on it
    b = rnd.choice([8192, 8192, 8192, 1, 5, 16, 64, 300])
    if rnd.random() < 0.04:
        item = rnd.choice(replies)["final"]
        item[1][rnd.randrange(len(item[1]))] = "".join(rnd.choice(ALPHA_ASCII) for _ in range(rnd.choice([8185, 8188, 8189, 8192, 9000])))
    return {"mode": "echo", "seed": seed, "encoding": enc, "replies": replies, "B": b}


class EchoServer(aioftp.Server):
    def __init__(self, plan, *a, **kw):
        super().__init__(*a, **kw)
        self.plan = plan
        self.commands_mapping["echo"] = self.echo

    async def echo(self, connection, rest):
        item = self.plan[int(rest)]
        if "pre" in item:
            code, lines, lst = item["pre"]
            connection.response(code, lines if len(lines) > 1 else lines[0], lst)
        code, lines, lst = item["final"]
        connection.response(code, lines if len(lines) > 1 else lines[0], lst)
        return True


def expected_info(lines):
    return [ln.rstrip() for ln in lines]


def run_echo_case(case):
    rng = random.Random(case["seed"] * 7919 + 73)
    net = scenario.random_net(rng, allow_small_pipe=True)
    total = sum(len(x) for r in case["replies"] for x in r["final"][1])
    if total > 3000 and net["seg_mode"] == "dribble":
        net["seg_mode"] = "random"
        net["seg_max"] = 7
    if case.get("net"):
        net.update(case["net"])
    sc = {"seed": case["seed"], "net": net}
    viol = []
    info = {"decoded": 0}
    world = scenario.setup_world(sc, max_steps=2_000_000)
    with world:
        scenario.apply_net(world.net, net)
        server = EchoServer(case["replies"], [aioftp.User()], path_io_factory=aioftp.MemoryPathIO, encoding=case["encoding"], block_size=case.get("B", 8192))
        world.server = server
        client = aioftp.Client(path_io_factory=aioftp.MemoryPathIO, encoding=case["encoding"])

        async def main():
            await server.start("127.0.0.1", 2121)
            try:
                await client.connect("127.0.0.1", 2121)
            except aioftp.StatusCodeError as e:
                viol.append({"clause": "reply-misread", "subject": "greeting", "detail": f"the server's greeting (block_size {case.get('B', 8192)}): client raised StatusCodeError expected {e.expected_codes} received {e.received_codes} info {e.info!r}"[:500]})
                return
            for i, item in enumerate(case["replies"]):
                code, lines, lst = item["final"]
                subject = ("list" if lst else "plain") + ("+pre" if "pre" in item else "")
                try:
                    if "pre" in item:
                        got = await asyncio.wait_for(client.command(f"ECHO {i}", code, "1xx"), 1e5)
                    else:
                        got = await asyncio.wait_for(client.command(f"ECHO {i}", code), 1e5)
                except aioftp.StatusCodeError as e:
                    viol.append({"clause": "reply-misread", "subject": subject, "detail": f"reply #{i} {item['final']!r} (encoding {case['encoding']}): client raised StatusCodeError expected {e.expected_codes} received {e.received_codes} info {e.info!r}"[:500]})
                    return
                except asyncio.TimeoutError:
                    viol.append({"clause": "reply-never-completed", "subject": subject, "detail": f"reply #{i} {item['final']!r}: the client was still waiting for the end of the reply after 100000 virtual seconds"[:500]})
                    return
                except UnicodeDecodeError as e:
                    viol.append({"clause": "reply-misread", "subject": subject, "detail": f"reply #{i}: {e!r}"[:300]})
                    return
                gcode, ginfo = got
                info["decoded"] += 1
                want = expected_info(lines)
                ok = str(gcode) == code and len(ginfo) == len(want) and all(g[1:] == w for g, w in zip(ginfo, want))
                if not ok:
                    viol.append({"clause": "reply-decoded-differently", "subject": subject, "detail": f"reply #{i}: sent code {code} lines {lines!r} list={lst}; client decoded code {str(gcode)} info {ginfo!r}"[:600]})
                    return
            await client.quit()
            await asyncio.sleep(1)
            await common.close_server(server)

        world.run(main())
        if world.outcome not in ("ok", "budget", "deadlock"):
            raise common.HarnessError(f"scenario failed: {world.outcome}: {world.error!r}")
        if world.outcome == "deadlock":
            viol.append({"clause": "reply-never-completed", "subject": "deadlock", "detail": "client and server both wait for ever"})
        splits = sum(1 for (_s, _t, kind, cid, side, n) in world.net.log if kind == "data" and side == "c")
        return _result(world, case, viol, {"replies_decoded": info["decoded"], "segments_to_client": splits})


def run_bad_case(case):
    """scripted fake server: continuation line with a different code"""
    rng = random.Random(case["seed"] * 7919 + 79)
    net = scenario.random_net(rng, allow_small_pipe=True)
    sc = {"seed": case["seed"], "net": net}
    viol = []
    rnd = random.Random(case["seed"])
    world = scenario.setup_world(sc)
    with world:
        scenario.apply_net(world.net, net)
        c1 = str(rnd.randint(100, 599))
        c2 = str(rnd.randint(100, 599))
        while c2 == c1:
            c2 = str(rnd.randint(100, 599))
        mid = [rnd.choice(["-x", " x", "-", ""]) for _ in range(rnd.randint(0, 2))]
        bad = [f"{c1}-first"] + [f"{c1}{m}" if m.startswith("-") else f" body{m}" for m in mid] + [f"{c2}{rnd.choice([' second', '-second'])}"]
        tail = [f"{c1} tail-of-the-bad-reply"] if rnd.random() < 0.5 else []
        g = next(x for x in ("200", "257", "299") if x not in (c1, c2))
        good = [f"{g}-genuine", " body line", f"{g} end"] if rnd.random() < 0.5 else [f"{g} genuine"]
        script = bad + tail + good
        client = aioftp.Client(path_io_factory=aioftp.MemoryPathIO)
        got = {}

        async def fake(reader, writer):
            writer.write(b"220 hello\r\n")
            await reader.readline()
            for ln in script:
                writer.write(ln.encode() + b"\r\n")
            await writer.drain()
            await reader.read()
            writer.close()

        async def main():
            srv = await asyncio.start_server(fake, "127.0.0.1", 2121)
            await client.connect("127.0.0.1", 2121)
            try:
                await asyncio.wait_for(client.command("X", "2xx"), 1e5)
                got["first"] = "no-error"
            except aioftp.StatusCodeError:
                got["first"] = "StatusCodeError"
            except asyncio.TimeoutError:
                got["first"] = "timeout"
            # the next replies: possibly the tail of the rejected reply, then the genuine one
            seen = []
            for _ in range(4):
                try:
                    code, inf = await asyncio.wait_for(client.parse_response(), 1e4)
                    seen.append((str(code), inf))
                    if str(code) == g:
                        break
                except aioftp.StatusCodeError:
                    seen.append(("error", None))
                except asyncio.TimeoutError:
                    seen.append(("timeout", None))
                    break
            got["seen"] = seen
            client.close()
            srv.close()
            await asyncio.sleep(1)

        world.run(main())
        if world.outcome not in ("ok", "budget", "deadlock"):
            raise common.HarnessError(f"scenario failed: {world.outcome}: {world.error!r}")
        if got.get("first") != "StatusCodeError":
            viol.append({"clause": "mixed-code-reply-accepted", "subject": "continuation-with-other-code", "detail": f"server sent {bad!r}: client.command returned {got.get('first')}"})
        seen = got.get("seen", [])
        want_info = [" genuine"] if len(good) == 1 else ["-genuine", " body line", " end"]
        if not seen or seen[-1] != (g, want_info):
            viol.append({"clause": "stream-desynchronised-after-error", "subject": "continuation-with-other-code", "detail": f"after rejecting {bad!r} (+tail {tail!r}) the genuine reply {good!r} was decoded as {seen!r}"})
        return _result(world, case, viol, {"negative_cases": 1})


def matches_subcheck():
    """pure function, enumerated: Code.matches(mask) == digit-for-digit agreement"""
    from aioftp.client import Code

    chars = "0123456789xX*-?_."
    bad = []
    n = 0
    masks = ["".join(t) for k in (1, 2, 3) for t in itertools.product(chars, repeat=k)]
    codes = [str(c) for c in range(100, 600, 7)] + ["100", "199", "200", "226", "250", "299", "550", "599"]
    for code in codes:
        c = Code(code)
        for m in masks:
            n += 1
            want = all((not mc.isdigit()) or mc == cc for mc, cc in zip(m, code))
            if bool(c.matches(m)) != want:
                bad.append((code, m))
                if len(bad) > 3:
                    return n, bad
    return n, bad


def _result(world, case, viol, counters):
    gc.collect()
    seen = set()
    out = []
    for v in viol:
        key = (v["clause"], v["subject"])
        if key not in seen:
            seen.add(key)
            out.append(v)
    res = {
        "digest": world.digest(repr(case.get("replies"))[:2000]),
        "nontrivial": True,
        "vtime": world.loop.time() - 1000.0,
        "events": world.net.seq,
        "steps": world.loop.steps,
        "outcome": world.outcome,
        "counters": counters,
        "groups": {"encoding": {case.get("encoding", "utf-8"): 1}, "seg_mode": {world.net.cfg.seg_mode: 1}},
        "violations": out,
    }
    if case.get("want_sample"):
        res["sample"] = {"case": case}
    return res


def gen_stall_case(seed):
    rnd = random.Random(seed * 4409 + 7)
    K = rnd.choice([20, 40, 80])
    replies = []
    for _ in range(K):
        nl = rnd.choice([1, 2, 3, 8, 20])
        lines = ["".join(rnd.choice("abcXYZ 019-_.;=") for _ in range(rnd.randint(0, 50))).rstrip() for _ in range(nl)]
        code = str(rnd.randint(200, 599))
        replies.append({"final": [code, lines, nl > 1 and rnd.random() < 0.5]})
    T = rnd.choice([0.5, 2.0, None])
    return {"mode": "stall", "seed": seed, "encoding": "utf-8", "replies": replies, "socket_timeout": T, "pause": rnd.choice([0.2, 1.5, 5.0, 30.0]), "reader_limit": rnd.choice([256, 1024])}


def run_stall_case(case):
    """The peer pipelines K commands and then does not read the control channel for a while:
    its receive buffers fill, the server's reply writer blocks (and, with socket_timeout set,
    times out in the middle of a multi-line reply).  Whatever the server does about that - wait,
    or drop the session - every reply the client decodes afterwards must be one of the replies
    that were sent, complete and in order: a prefix of the sequence, never a glued or truncated
    one taken for a reply."""
    rng = random.Random(case["seed"] * 7919 + 79)
    net = scenario.random_net(rng, allow_small_pipe=False)
    net["capacity"], net["high_water"] = 512, 256
    sc = {"seed": case["seed"], "net": net}
    viol = []
    info = {"decoded": 0}
    world = scenario.setup_world(sc, max_steps=3_000_000)
    with world:
        scenario.apply_net(world.net, net)
        server = EchoServer(case["replies"], [aioftp.User()], path_io_factory=aioftp.MemoryPathIO, encoding=case["encoding"], socket_timeout=case["socket_timeout"], block_size=case.get("B", 8192))
        world.server = server
        client = aioftp.Client(path_io_factory=aioftp.MemoryPathIO, encoding=case["encoding"])
        K = len(case["replies"])

        async def main():
            await server.start("127.0.0.1", 2121)
            try:
                await client.connect("127.0.0.1", 2121)
            except aioftp.StatusCodeError as e:
                viol.append({"clause": "reply-misread", "subject": "greeting", "detail": f"the server's greeting: client raised {e!r}"[:400]})
                return
            client.stream.reader._limit = case["reader_limit"]  # the peer's receive buffer is small
            await client.stream.write("".join(f"ECHO {i}\r\n" for i in range(K)).encode())
            await asyncio.sleep(case["pause"])
            info["server_blocked"] = any(t.side == "s" and t._sendbuf for t in world.net.transports)
            for i, item in enumerate(case["replies"]):
                code, lines, lst = item["final"]
                try:
                    gcode, ginfo = await asyncio.wait_for(client.parse_response(), 1e4)
                except (ConnectionError, asyncio.IncompleteReadError):
                    info["dropped_after"] = i
                    break
                except asyncio.TimeoutError:
                    viol.append({"clause": "reply-never-completed", "subject": "stalled-reader", "detail": f"after the peer resumed reading, reply #{i} of {K} never arrived and the connection was not closed either (socket_timeout={case['socket_timeout']}, pause {case['pause']})"})
                    break
                except Exception as e:
                    viol.append({"clause": "reply-misread", "subject": "stalled-reader", "detail": f"reply #{i}: client raised {e!r} (socket_timeout={case['socket_timeout']}, pause {case['pause']})"[:400]})
                    break
                want = expected_info(lines)
                ok = str(gcode) == code and len(ginfo) == len(want) and all(g[1:] == w for g, w in zip(ginfo, want))
                if not ok:
                    viol.append({"clause": "reply-decoded-differently", "subject": "stalled-reader", "detail": f"peer did not read for {case['pause']}s (socket_timeout={case['socket_timeout']}); reply #{i}: sent code {code} lines {lines!r}; client decoded code {str(gcode)} with {len(ginfo)} lines {ginfo[:4]!r}"[:600]})
                    break
                info["decoded"] += 1
            client.close()
            await asyncio.sleep(1)
            await common.close_server(server)

        world.run(main())
        if world.outcome not in ("ok", "budget", "deadlock"):
            raise common.HarnessError(f"scenario failed: {world.outcome}: {world.error!r}")
        return _result(world, case, viol, {"replies_decoded": info["decoded"], "probe.reply_writer_blocked_by_unread_peer": int(bool(info.get("server_blocked"))), "probe.session_dropped_while_peer_not_reading": int("dropped_after" in info)})


def gen_cancel_case(seed):
    rnd = random.Random(seed * 4409 + 11)
    replies = []
    for _ in range(rnd.choice([4, 8, 12])):
        code = str(rnd.choice([200, 211, 226, 250, 257, 331, 425, 500, 550]))
        replies.append({"final": [code, ["".join(rnd.choice(ALPHA_ASCII) for _ in range(rnd.randint(1, 40))).strip() or "x"], False]})
    return {"mode": "cancel", "seed": seed, "encoding": "utf-8", "replies": replies, "limit": rnd.choice([20, 60, 200, None]), "timeouts": [rnd.choice([0.0005, 0.01, 0.2, 1.0, 5.0]) for _ in replies]}


def run_cancel_case(case):
    """The caller gives up on a command (its own `wait_for` around `client.command`) while the
    client - slowed down by a read speed limit - is still waiting for the single-line reply,
    and later reads the pending reply with `command(None, code)`.  A reply is never lost or
    torn by that: every reply comes back exactly once, complete, in order."""
    rng = random.Random(case["seed"] * 7919 + 83)
    net = scenario.random_net(rng, allow_small_pipe=False)
    sc = {"seed": case["seed"], "net": net}
    viol = []
    info = {"decoded": 0, "given_up": 0}
    world = scenario.setup_world(sc, max_steps=2_000_000)
    with world:
        scenario.apply_net(world.net, net)
        server = EchoServer(case["replies"], [aioftp.User()], path_io_factory=aioftp.MemoryPathIO)
        world.server = server
        client = aioftp.Client(path_io_factory=aioftp.MemoryPathIO, read_speed_limit=case.get("limit"))

        async def main():
            await server.start("127.0.0.1", 2121)
            await client.connect("127.0.0.1", 2121)
            for i, item in enumerate(case["replies"]):
                code, lines, _lst = item["final"]
                try:
                    try:
                        got = await asyncio.wait_for(client.command(f"ECHO {i}", code), case["timeouts"][i])
                    except asyncio.TimeoutError:
                        info["given_up"] += 1
                        got = await asyncio.wait_for(client.command(None, code), 1e5)
                except aioftp.StatusCodeError as e:
                    viol.append({"clause": "reply-misread", "subject": "caller-timeout", "detail": f"reply #{i} {item['final']!r} after the caller gave up on {info['given_up']} commands (read limit {case.get('limit')}): client raised StatusCodeError expected {e.expected_codes} received {e.received_codes} info {e.info!r}"[:500]})
                    return
                except asyncio.TimeoutError:
                    viol.append({"clause": "reply-never-completed", "subject": "caller-timeout", "detail": f"reply #{i} {item['final']!r}: after the caller's timeout of {case['timeouts'][i]}s the pending reply never arrived (read limit {case.get('limit')})"})
                    return
                gcode, ginfo = got
                want = expected_info(lines)
                if str(gcode) != code or [g[1:] for g in ginfo] != want:
                    viol.append({"clause": "reply-decoded-differently", "subject": "caller-timeout", "detail": f"reply #{i}: sent {code} {lines!r}; client decoded {str(gcode)} {ginfo!r}"[:500]})
                    return
                info["decoded"] += 1
            await client.quit()
            await asyncio.sleep(1)
            await common.close_server(server)

        world.run(main())
        if world.outcome not in ("ok", "budget", "deadlock"):
            raise common.HarnessError(f"scenario failed: {world.outcome}: {world.error!r}")
        if world.outcome == "deadlock":
            viol.append({"clause": "reply-never-completed", "subject": "caller-timeout:deadlock", "detail": "client and server both wait for ever"})
        return _result(world, case, viol, {"replies_decoded": info["decoded"], "probe.commands_the_caller_gave_up_on": info["given_up"]})


def run_case(case):
    if case["mode"] == "stall":
        return run_stall_case(case)
    if case["mode"] == "cancel":
        return run_cancel_case(case)
    return run_echo_case(case) if case["mode"] == "echo" else run_bad_case(case)


def confirm(case, violation):
    r = run_case(case)
    return any(v["clause"] == violation["clause"] and v["subject"] == violation["subject"] for v in r["violations"])


def minimise(case, violation):
    import copy

    def bad(c):
        try:
            r = run_case(c)
        except Exception:
            return False
        return any(v["clause"] == violation["clause"] for v in r["violations"])

    cur = copy.deepcopy(case)
    cur.pop("want_sample", None)
    if cur["mode"] != "echo":
        return cur, violation
    budget = 80
    i = len(cur["replies"]) - 1
    while i >= 0 and budget > 0 and len(cur["replies"]) > 1:
        trial = copy.deepcopy(cur)
        del trial["replies"][i]
        budget -= 1
        if bad(trial):
            cur = trial
        i -= 1
    for ri in range(len(cur["replies"])):
        lines = cur["replies"][ri]["final"][1]
        for li in range(len(lines)):
            for repl in ("", "a"):
                if lines[li] == repl or budget <= 0:
                    continue
                trial = copy.deepcopy(cur)
                trial["replies"][ri]["final"][1][li] = repl
                budget -= 1
                if bad(trial):
                    cur = trial
                    break
    trial = copy.deepcopy(cur)
    trial["net"] = {"seg_mode": "whole", "latency": [0.001, 0.001], "capacity": 262144, "high_water": 65536, "send_delay": 0.0}
    if bad(trial):
        cur = trial
    return cur, violation


def selftest_cases(n):
    return [gen_case(120_000 + i) for i in range(n - n // 5)] + [{"mode": "bad", "seed": 121_000 + i} for i in range(n // 5)] + [gen_stall_case(122_000 + i) for i in range(n // 10)]


def main(argv=None):
    a = common.tier_and_seed(argv)
    if a.replay:
        import json

        doc = json.load(open(a.replay))
        r = run_case(doc["case"])
        hit = [v for v in r["violations"] if v["clause"] == doc["clause"]]
        if hit:
            print(f"reproduced: {hit[0]}")
            print(f"VIOLATION property={PROP} replay={a.replay}")
            return 1
        print("not reproduced")
        return 0
    quick = a.tier == "quick"
    ev = common.Evidence(PROP, a.tier, a.seed, "exploration", "seeded reply sequences (1..6 replies; codes 100..599; 1..6 lines per reply; lines empty / header-like ('250 ok', '250-more', '999-') / leading '-' or blanks / non-ASCII / up to 2000 chars; plain and list framing; optional preliminary 1xx reply) sent by the real response writer of a Server subclass over the simulated network (seeded segmentation down to 1 byte, latency, narrow pipes) to the real client, in utf-8, latin-1 and cp1251; plus scripted mixed-code replies; non-trivial = every run; distinct = distinct run digests.  pure_subcheck.code_matches_pairs counts enumerated (code, mask) pairs of the pure function Code.matches Stalled-reader runs: 20..80 pipelined commands while the peer does not read the control channel; the decoded replies must be an exact prefix of the sent sequence.")
    rep = common.Reporter(PROP, ev)
    deadline = time.time() + (a.budget or (60 if quick else 1200))
    n = 5000 if quick else 600000
    npairs, badpairs = matches_subcheck()
    ev.count("pure_subcheck.code_matches_pairs", npairs)
    if badpairs:
        rep.add({"mode": "matches", "pairs": badpairs}, {"clause": "code-matches-wrong", "subject": "Code.matches", "detail": f"Code(code).matches(mask) disagrees with the digit-for-digit predicate for {badpairs}"})
    with common.Pool() as pool:
        def gen():
            for i in range(n):
                yield gen_case(a.seed * 1_000_000 + i)
                if i % 10 == 0:
                    yield {"mode": "bad", "seed": a.seed * 1_000_000 + i}
                if i % 25 == 1:
                    yield gen_stall_case(a.seed * 1_000_000 + i)
                if i % 12 == 5:
                    yield gen_cancel_case(a.seed * 1_000_000 + i)

        cases = common.with_samples(gen(), 2)
        for case, res in pool.map(run_case, cases, deadline=deadline, chunksize=16):
            ev.add_run(res)
            for v in res["violations"]:
                rep.add(case, v)
        ev.assumptions = ["lines contain no CR / LF (not representable in a reply line); trailing whitespace of a line and the separator character kept by the client ('-' / ' ') are representation, not content", "Code.matches is a pure function: it is enumerated, not simulated"]

        def conf(case, violation):
            if case.get("mode") == "matches":
                return True
            return confirm(case, violation)

        def mini(case, violation):
            if case.get("mode") == "matches":
                return case, violation
            return minimise(case, violation)

        code = rep.finish(minimise=mini, confirm=conf)
    ev.write()
    print(f"{PROP}: {ev.evaluations} runs, {len(ev.nontrivial_digests)} distinct non-trivial, {ev.violations} violation classes, exit {code}")
    return code
