"""C15 - speed limits bound the cumulative rate, compose, and cost nothing when off.

Run A (API level): real Throttle / StreamThrottle / ThrottleStreamIO over simulated
connections; 1..4 streams sharing / not sharing throttles; seeded traces of (chunk size,
idle gap) with gaps shorter and longer than reset_rate, I/O durations from the pipe
(latency, capacity), limits from 1 B/s to 1e7 and None / 0.
Run B (end to end): real server with any combination of the five limit levels x two
directions, 1..5 sessions of 1..2 users with staggered lifetimes (log in, transfer, quit,
log in again), uploads and downloads, optional client limits; all in virtual time.

Observation: recording wrappers around the un-throttled base StreamIO.read / readline /
write (start, end, bytes) and around ThrottleStreamIO.read / readline / write (request
time).  Oracle, per *intended scope* (set of streams a limit is meant to govern) with limit L:
  upper bound    at the start t_k of I/O k:  sum_{i<k} n_i <= L (t_k - t0) + blocks in flight + rho_k
  no over-delay  t_k <= max(request_k, max over scopes (t0' + sum_{i<k} n_i / L)) + rho_k / L
  unlimited      start == request exactly (same virtual instant)
t0 = start of the scope's first I/O, t0' = completion of its first completed I/O,
rho_k = 1/2 byte per possible reset fold.
"""

from __future__ import annotations

import asyncio
import gc
import random
import time

from checks import common
from simftp import scenario
from simftp.world import aioftp
import aioftp.common as acommon

PROP = "C15"
EPS = 1e-7


class Recorder:
    def __init__(self, loop):
        self.loop = loop
        self.recs = []  # dict(stream, dir, req, start, end, n, seq)
        self.seq = 0
        self._saved = {}

    def install(self):
        rec = self
        S, T = acommon.StreamIO, acommon.ThrottleStreamIO
        for name, direction in (("read", "read"), ("readline", "read"), ("write", "write")):
            self._saved[(S, name)] = S.__dict__[name]
            self._saved[(T, name)] = T.__dict__[name]
            base = getattr(S, name)
            top = getattr(T, name)

            def make_base(base, direction):
                def wrapper(self, *a, **kw):
                    # StreamIO methods are sync functions returning wait_for(...) awaitables
                    aw = base(self, *a, **kw)
                    r = getattr(self, "_c15_pending_" + direction, None)

                    async def run():
                        if r is not None and r.get("start") is None:
                            r["start"] = rec.loop.time()
                            rec.seq += 1
                            r["seq"] = rec.seq
                            if direction == "write":
                                r["n"] = len(a[0]) if a else 0
                        try:
                            res = await aw
                        finally:
                            if r is not None:
                                r["end"] = rec.loop.time()
                        if r is not None and direction == "read":
                            r["n"] = len(res)
                        return res

                    return run()

                return wrapper

            def make_top(top, direction):
                async def wrapper(self, *a, **kw):
                    r = {"stream": self, "dir": direction, "req": rec.loop.time(), "start": None, "end": None, "n": 0, "seq": None, "thr": [id(getattr(t, direction)) for t in self.throttles.values() if getattr(t, direction).limit]}
                    rec.recs.append(r)
                    # one slot per direction: a control stream has a read (next command) and a
                    # write (reply) in flight at the same time
                    setattr(self, "_c15_pending_" + direction, r)
                    try:
                        return await top(self, *a, **kw)
                    finally:
                        r["names_end"] = set(self.throttles.keys())
                        setattr(self, "_c15_pending_" + direction, None)

                return wrapper

            setattr(S, name, make_base(base, direction))
            setattr(T, name, make_top(top, direction))

    def restore(self):
        for (cls, name), fn in self._saved.items():
            setattr(cls, name, fn)


def check_scopes(recs, scopes, viol, info, where):
    """scopes: list of dict(name, dir, limit, streams=set(id(stream))) ; recs sorted by seq"""
    done = [r for r in recs if r["start"] is not None]
    done.sort(key=lambda r: r["seq"])
    by_scope = []
    ambiguous = set()
    maybe = set()  # I/Os on streams of some limited scope (whether or not the I/O falls into its time span)
    for sc in scopes:
        if not sc["limit"] or sc["limit"] <= 0:
            continue
        need = sc.get("needs_throttle")
        cand = [r for r in done if r["dir"] == sc["dir"] and id(r["stream"]) in sc["streams"]]
        for r in cand:
            maybe.add(id(r))
        span = sc.get("span") or {}
        ios = [r for r in cand if (need is None or need in r.get("names_end", ())) and (id(r["stream"]) not in span or (span[id(r["stream"])][0] <= r["req"] and r["start"] <= span[id(r["stream"])][1]))]
        amb = []
        if span:
            inn = set(id(r) for r in ios)
            for r in cand:
                if id(r) not in inn and id(r["stream"]) in span:
                    ambiguous.add(id(r))  # around the second login: either user's limit may still / already apply
                    amb.append(r)
        sc["_amb"] = amb
        if not ios:
            continue
        # the limit's clock starts with the first I/O booked on it; around a second login that may
        # be an I/O of the ambiguous window (earlier origin = more credit = the sound choice)
        t0 = min([ios[0]["start"]] + [r["start"] for r in amb])
        ends = [r["end"] for r in ios if r["end"] is not None]
        t0p = min(ends) if ends else t0
        maxblk = {}
        for r in ios:
            maxblk[id(r["stream"])] = max(maxblk.get(id(r["stream"]), 0), r["n"])
        by_scope.append((sc, ios, t0, t0p, sum(maxblk.values())))
    # index: per record the applicable scopes
    applicable = {}
    for (sc, ios, t0, t0p, slack) in by_scope:
        L = sc["limit"]
        cum = 0
        amb = sorted(sc.get("_amb") or (), key=lambda r: r["seq"])
        ai = 0
        extra = 0  # bytes the server may legitimately have booked on this limit around a second login
        for r in ios:
            while ai < len(amb) and amb[ai]["seq"] < r["seq"]:
                extra += amb[ai]["n"]
                ai += 1
            tk = r["start"]
            rho = 0.5 * (int((tk - t0) / 10.0) + 1)
            info["ios_checked"] = info.get("ios_checked", 0) + 1
            if cum > L * (tk - t0) + slack + rho + EPS * L:
                viol.append({"clause": "rate-exceeded", "subject": f"{where}:{sc['name']}", "detail": f"scope {sc['name']} ({sc['dir']}, limit {L} B/s, {len(sc['streams'])} streams): {cum} bytes had been moved at t0+{tk - t0:.6f}s, bound {L * (tk - t0) + slack + rho:.1f} (= L*t + {slack} in flight + {rho} rounding)"})
                for r2 in ios:
                    ambiguous.add(id(r2))  # this limit is broken: no statement about delays under it
                break
            applicable.setdefault(id(r), []).append((t0p + (cum + extra) / L + rho / L, sc["name"]))
            cum += r["n"]
    for r in done:
        lims = applicable.get(id(r))
        if not lims:
            if id(r) in maybe:
                continue  # on a stream of a limited scope, outside its span (login in progress, scope check cut short)
            if r["start"] - r["req"] > EPS:
                viol.append({"clause": "delay-without-limit", "subject": f"{where}:{r['dir']}", "detail": f"a {r['dir']} of {r['n']} bytes started {r['start'] - r['req']:.6f}s after it was requested although no limit applies to that direction"})
            else:
                info["unlimited_ios"] = info.get("unlimited_ios", 0) + 1
            continue
        allowed = max(t for t, _ in lims)
        if id(r) in ambiguous:
            continue
        if r["start"] > max(r["req"], allowed) + EPS:
            viol.append({"clause": "over-delayed", "subject": f"{where}:{'+'.join(sorted(n for _, n in lims))}", "detail": f"a {r['dir']} of {r['n']} bytes requested at {r['req']:.6f} started at {r['start']:.6f}; the tightest applicable limit allows it at {allowed:.6f} (scopes {lims})"})
        if r["start"] - r["req"] > EPS:
            info["throttled_ios"] = info.get("throttled_ios", 0) + 1


# ----------------------------------------------------------------------- run A


def gen_api_case(seed):
    rnd = random.Random(seed * 1543 + 7)
    nstreams = rnd.randint(1, 4)
    direction = rnd.choice(["write", "read"])
    limits = {"shared": rnd.choice([None, 0, 1, 7, 100, 1000, 12345, 10**7]), "own": [rnd.choice([None, None, 50, 3000]) for _ in range(nstreams)]}
    share = [rnd.random() < 0.7 for _ in range(nstreams)]
    traces = []
    for i in range(nstreams):
        tr = []
        for _ in range(rnd.randint(2, 14)):
            tr.append([rnd.choice([1, 3, 16, 100, 1000, 5000]), rnd.choice([0, 0, 0, 0.01, 0.5, 3.0, 9.9, 10.1, 25.0])])
        traces.append(tr)
    return {"mode": "api", "seed": seed, "dir": direction, "limits": limits, "share": share, "traces": traces, "other_dir_limit": rnd.choice([None, 5])}


def run_api_case(case):
    rng = random.Random(case["seed"] * 7919 + 61)
    net = scenario.random_net(rng, allow_small_pipe=True)
    total = max(sum(n for (n, _g) in tr) for tr in case["traces"])
    if total > 3000 and net["seg_mode"] in ("dribble", "random"):
        net["seg_mode"] = "mss"
        net["seg_max"] = max(net["seg_max"], 536)
    if total > 3000:
        net["capacity"] = max(net.get("capacity", 4096), 1024)
    sc = {"seed": case["seed"], "net": net}
    viol = []
    info = {}
    world = scenario.setup_world(sc, max_steps=2_000_000)
    with world:
        scenario.apply_net(world.net, net)
        rec = Recorder(world.loop)
        rec.install()
        try:
            direction = case["dir"]
            other = "read" if direction == "write" else "write"

            def mk(limit):
                kw = {direction: acommon.Throttle(limit=limit), other: acommon.Throttle(limit=case.get("other_dir_limit"))}
                return acommon.StreamThrottle(**kw)

            shared = mk(case["limits"]["shared"])
            streams = []

            async def sink(reader, writer):
                # drains what it gets; when asked to, sends a stream of bytes
                if direction == "write":
                    while await reader.read(65536):
                        pass
                    writer.close()
                else:
                    # send no more than the readers will consume (bounded number of network events)
                    try:
                        for _ in range(total // 256 + 2):
                            writer.write(b"x" * 256)
                            await writer.drain()
                        await reader.read()
                    except ConnectionError:
                        pass

            async def one(i):
                r, w = await asyncio.open_connection("127.0.0.1", 7000)
                thr = {}
                if case["share"][i]:
                    thr["shared"] = shared
                own = mk(case["limits"]["own"][i])
                thr["own"] = own
                st = acommon.ThrottleStreamIO(r, w, throttles=thr)
                streams.append((i, st, own))
                for (n, gap) in case["traces"][i]:
                    if gap:
                        await asyncio.sleep(gap)
                    if direction == "write":
                        await st.write(b"d" * n)
                    else:
                        await st.read(n)
                st.close()

            async def main():
                srv = await asyncio.start_server(sink, "127.0.0.1", 7000)
                await asyncio.gather(*[one(i) for i in range(len(case["traces"]))])
                srv.close()
                await asyncio.sleep(1)

            world.run(main())
        finally:
            rec.restore()
        if world.outcome not in ("ok", "budget"):
            raise common.HarnessError(f"scenario failed: {world.outcome}: {world.error!r}")
        scopes = []
        sh = set(id(st) for (i, st, own) in streams if case["share"][i])
        if sh:
            scopes.append({"name": "shared", "dir": direction, "limit": case["limits"]["shared"], "streams": sh})
            scopes.append({"name": "shared-other-dir", "dir": other, "limit": case.get("other_dir_limit"), "streams": sh})
        for (i, st, own) in streams:
            scopes.append({"name": f"own{i}", "dir": direction, "limit": case["limits"]["own"][i], "streams": {id(st)}})
            scopes.append({"name": f"own{i}-other-dir", "dir": other, "limit": case.get("other_dir_limit"), "streams": {id(st)}})
        check_scopes(rec.recs, scopes, viol, info, "api")
        return _result(world, case, viol, info, rec)


# ----------------------------------------------------------------------- run B

LEVELS = ["read_speed_limit", "write_speed_limit", "read_speed_limit_per_connection", "write_speed_limit_per_connection"]


def gen_e2e_case(seed):
    rnd = random.Random(seed * 2719 + 5)
    B = rnd.choice([8, 16, 64])
    rates = [None, None, None, 20, 50, 200, 1000, 10**6]
    srv = {k: rnd.choice(rates) for k in LEVELS}
    users = []
    for name in ("ua", "ub"):
        users.append({"login": name, **{k: rnd.choice(rates) for k in LEVELS}})
    sessions = []
    for i in range(rnd.randint(1, 5)):
        ops = []
        for _ in range(rnd.randint(1, 3)):
            ops.append([rnd.choice(["up", "down"]), rnd.choice([B // 2, B, 3 * B + 1, 10 * B, 25 * B])])
        if rnd.random() < 0.25:
            ops.append(["list", 0])  # a directory listing: the client reads the data connection line by line
        sess = {"user": rnd.choice(["ua", "ua", "ub"]), "start": rnd.choice([0.0, 0.0, 0.5, 3.0, 11.0, 30.0]), "ops": ops, "client_limits": [rnd.choice([None, None, 100]), rnd.choice([None, None, 100])]}
        if rnd.random() < 0.3:
            # the session logs in again as the other user, with its passive listener already open
            sess["relogin"] = {"user": "ub" if sess["user"] == "ua" else "ua", "pasv_first": rnd.random() < 0.8, "op_first": rnd.random() < 0.4}
            # ... or even with a data connection already made, which the first transfer of the
            # second login then uses: that transfer runs under the second user's limits
            sess["relogin"]["dconn_first"] = rnd.random() < 0.4
        sessions.append(sess)
    if rnd.random() < 0.35 and all(s_["client_limits"] == [None, None] for s_ in sessions):
        # a socket_timeout shorter than the pause one block can require under the limits above:
        # timeouts bound the I/O itself, a throttle wait is not I/O (peers that read and write
        # promptly, so no genuine stall can make the timeout fire)
        srv["socket_timeout"] = rnd.choice([0.05, 0.2, 1.0])
    return {"mode": "e2e", "seed": seed, "B": B, "server": srv, "users": users, "sessions": sessions}


def run_e2e_case(case):
    rng = random.Random(case["seed"] * 7919 + 67)
    net = scenario.random_net(rng, allow_small_pipe=False)
    net["latency"] = [0.0025, 0.005]
    B = case["B"]
    sspec = {"block_size": B, "wait_future_timeout": 50.0, "users": case["users"]}
    sspec.update({k: v for k, v in case["server"].items()})
    sc = {"seed": case["seed"], "server": sspec, "net": net, "fs": {"delay": None, "tree": {"/src.bin": 25 * B, "/many": None, **{f"/many/entry{j:02d}": 1 for j in range(12)}}}}
    viol = []
    info = {}
    world = scenario.setup_world(sc, max_steps=3_000_000)
    with world:
        server = scenario.finish_setup(world, sc)
        rec = Recorder(world.loop)
        rec.install()
        clients = []
        try:

            async def one(i, s):
                if s["start"]:
                    await asyncio.sleep(s["start"])
                c = aioftp.Client(path_io_factory=aioftp.MemoryPathIO, read_speed_limit=s["client_limits"][0], write_speed_limit=s["client_limits"][1])
                clients.append((i, c))
                await c.connect("127.0.0.1", 2121)
                await c.login(s["user"], "x")
                rl = s.get("relogin")
                if rl:
                    if rl["pasv_first"]:
                        await c.command("EPSV", "229")
                    if rl["op_first"]:
                        async with c.download_stream("src.bin") as st:
                            await st.read(B)
                    dconn = None
                    if rl.get("dconn_first"):
                        code, lines = await c.command("EPSV", "229")
                        port = int(lines[-1].rsplit("|", 2)[-2])
                        dconn = await asyncio.open_connection("127.0.0.1", port)
                        await asyncio.sleep(0.05)  # the server has accepted it
                    t1 = world.loop.time()
                    await c.login(rl["user"], "x")
                    info.setdefault("relogin", {})[f"s{i}"] = (t1, world.loop.time())
                    if dconn is not None:
                        await c.command("RETR src.bin", "1xx")
                        while await dconn[0].read(4096):
                            pass
                        dconn[1].close()
                        await c.command(None, "2xx", "1xx")
                        info["transfers_over_a_data_connection_made_before_relogin"] = info.get("transfers_over_a_data_connection_made_before_relogin", 0) + 1
                for (kind, n) in s["ops"]:
                    if kind == "list":
                        await c.list("/many")
                    elif kind == "up":
                        async with c.upload_stream(f"up_{i}.bin") as st:
                            data = b"u" * n
                            for pos in range(0, n, B):
                                await st.write(data[pos : pos + B])
                    else:
                        got = 0
                        async with c.download_stream("src.bin") as st:
                            async for blk in st.iter_by_block(B):
                                got += len(blk)
                                if got >= n:
                                    break
                        # leaving early closes the data connection; the server's transfer fails (426/451 or reset)
                await c.quit()

            async def guarded(i, s):
                try:
                    await one(i, s)
                except (aioftp.StatusCodeError, ConnectionError):
                    info["client_errors"] = info.get("client_errors", 0) + 1

            async def main():
                await server.start("127.0.0.1", 2121)
                tasks = [world.spawn(guarded(i, s), f"s{i}") for i, s in enumerate(case["sessions"])]
                await asyncio.wait(tasks)
                await asyncio.sleep(1)
                await common.close_server(server)

            world.run(main())
        finally:
            rec.restore()
        if world.outcome not in ("ok", "budget"):
            raise common.HarnessError(f"scenario failed: {world.outcome}: {world.error!r}")
        # ---- intended scopes
        srv_streams = {}
        cli_streams = {}
        for r in rec.recs:
            st = r["stream"]
            try:
                tr = st.writer.transport
            except Exception:
                continue
            lab = tr.conn.label
            (srv_streams if tr.side == "s" else cli_streams).setdefault(lab, set()).add(id(st))
        scopes = []
        allsrv = set().union(*srv_streams.values()) if srv_streams else set()
        for d in ("read", "write"):
            scopes.append({"name": f"server_global.{d}", "dir": d, "limit": case["server"].get(f"{d}_speed_limit"), "streams": allsrv})
            for lab, ss in srv_streams.items():
                scopes.append({"name": f"server_per_connection.{d}.{lab}", "dir": d, "limit": case["server"].get(f"{d}_speed_limit_per_connection"), "streams": ss})
            relog = info.get("relogin", {})
            for u in case["users"]:
                labs = [f"s{i}" for i, s in enumerate(case["sessions"]) if s["user"] == u["login"] or (s.get("relogin") or {}).get("user") == u["login"]]
                us = set().union(*[srv_streams.get(l, set()) for l in labs]) if labs else set()
                # a session that logs in again belongs to its first user until the second USER is
                # sent and to the second one from the completion of that login on - whichever
                # throttle objects the server happens to have attached to its streams
                span = {}
                for i, s_ in enumerate(case["sessions"]):
                    l = f"s{i}"
                    if s_.get("relogin") and l in labs:
                        t1, t2 = relog.get(l, (float("inf"), float("inf")))
                        for sid in srv_streams.get(l, ()):
                            span[sid] = (float("-inf"), t1) if s_["user"] == u["login"] else (t2, float("inf"))
                # before USER the control stream carries no user throttle: the greeting / USER
                # command I/Os are in scope only formally (a handful of bytes); they can only make
                # the bound looser, never tighter for the upper bound, but they could shift t0:
                # restrict user scopes to I/Os after the login reply of each session (below)
                scopes.append({"name": f"user_global.{d}.{u['login']}", "dir": d, "limit": u.get(f"{d}_speed_limit"), "streams": us, "after_login": True, "span": span})
                for l in labs:
                    scopes.append({"name": f"user_per_connection.{d}.{l}.{u['login']}", "dir": d, "limit": u.get(f"{d}_speed_limit_per_connection"), "streams": srv_streams.get(l, set()), "after_login": True, "span": span})
            for i, s in enumerate(case["sessions"]):
                lim = s["client_limits"][0 if d == "read" else 1]
                scopes.append({"name": f"client.{d}.s{i}", "dir": d, "limit": lim, "streams": cli_streams.get(f"s{i}", set())})
        # a user scope governs an I/O only if the stream carried the user's throttles when the I/O
        # was accounted (they are attached when USER is processed)
        for sc_ in scopes:
            if sc_.get("after_login"):
                sc_["needs_throttle"] = "user_global"
        check_scopes(rec.recs, scopes, viol, info, "e2e")
        return _result(world, case, viol, info, rec)


def _result(world, case, viol, info, rec):
    gc.collect()
    seen = set()
    out = []
    for v in viol:
        key = (v["clause"], v["subject"].split(".s")[0])
        if key not in seen:
            seen.add(key)
            out.append(v)
    nrec = sum(1 for r in rec.recs if r["start"] is not None)
    res = {
        "digest": world.digest([(r["dir"], r["n"], round(r["start"], 9)) for r in rec.recs if r["start"] is not None]),
        "nontrivial": info.get("throttled_ios", 0) > 0,
        "vtime": world.loop.time() - 1000.0,
        "events": world.net.seq,
        "steps": world.loop.steps,
        "outcome": world.outcome,
        "counters": {"ios_recorded": nrec, "ios_checked_against_a_limit": info.get("ios_checked", 0), "ios_actually_delayed": info.get("throttled_ios", 0), "ios_with_no_limit_checked_for_zero_delay": info.get("unlimited_ios", 0), f"mode.{case['mode']}": 1, "probe.run_longer_than_reset_rate": int(world.loop.time() - 1000.0 > 10.0), "probe.transfers_over_a_data_connection_made_before_relogin": info.get("transfers_over_a_data_connection_made_before_relogin", 0)},
        "violations": out,
    }
    if case.get("want_sample"):
        res["sample"] = {"case": case, "first_ios": [(r["dir"], r["n"], round(r["req"], 6), round(r["start"], 6)) for r in rec.recs[:12] if r["start"] is not None]}
    return res


def run_case(case):
    return run_api_case(case) if case["mode"] == "api" else run_e2e_case(case)


def confirm(case, violation):
    r = run_case(case)
    return any(v["clause"] == violation["clause"] for v in r["violations"])


def minimise(case, violation):
    import copy

    def bad(c):
        try:
            r = run_case(c)
        except Exception:
            return False
        return any(v["clause"] == violation["clause"] for v in r["violations"])

    cur = copy.deepcopy(case)
    cur.pop("want_sample", None)
    budget = 60
    if cur["mode"] == "e2e":
        i = len(cur["sessions"]) - 1
        while i >= 0 and budget > 0 and len(cur["sessions"]) > 1:
            trial = copy.deepcopy(cur)
            del trial["sessions"][i]
            budget -= 1
            if bad(trial):
                cur = trial
            i -= 1
        for k in LEVELS:
            if cur["server"].get(k) is not None and budget > 0:
                trial = copy.deepcopy(cur)
                trial["server"][k] = None
                budget -= 1
                if bad(trial):
                    cur = trial
            for ui in range(len(cur["users"])):
                if cur["users"][ui].get(k) is not None and budget > 0:
                    trial = copy.deepcopy(cur)
                    trial["users"][ui][k] = None
                    budget -= 1
                    if bad(trial):
                        cur = trial
    return cur, violation


def selftest_cases(n):
    return [gen_api_case(90_000 + i) for i in range(n // 2)] + [gen_e2e_case(91_000 + i) for i in range(n - n // 2)]


def main(argv=None):
    a = common.tier_and_seed(argv)
    if a.replay:
        import json

        doc = json.load(open(a.replay))
        r = run_case(doc["case"])
        hit = [v for v in r["violations"] if v["clause"] == doc["clause"]]
        if hit:
            print(f"reproduced: {hit[0]}")
            print(f"VIOLATION property={PROP} replay={a.replay}")
            return 1
        print("not reproduced")
        return 0
    quick = a.tier == "quick"
    ev = common.Evidence(PROP, a.tier, a.seed, "exploration", "(api) 1..4 ThrottleStreamIO streams over simulated connections sharing / not sharing Throttle objects, seeded traces of chunk sizes and idle gaps around reset_rate, limits 1..1e7 / None / 0, opposite-direction limit on/off; (e2e) real server with seeded combinations of the five limit levels x two directions, 1..5 client sessions of two users with staggered lifetimes, uploads / downloads of 0.5..25 blocks, optional client limits; every recorded I/O is checked against the cumulative-rate bound and the no-over-delay bound of every scope that is meant to govern it, and for zero added delay when none does; non-trivial = at least one I/O was actually delayed by a throttle; distinct = distinct run digests About a third of the end-to-end sessions log in again as the other user with the passive listener already open.")
    rep = common.Reporter(PROP, ev)
    deadline = time.time() + (a.budget or (75 if quick else 1500))
    n = 2500 if quick else 300000
    with common.Pool() as pool:
        def gen():
            for i in range(n):
                yield gen_api_case(a.seed * 1_000_000 + i)
                yield gen_e2e_case(a.seed * 1_000_000 + i)

        cases = common.with_samples(gen(), 2)
        for case, res in pool.map(run_case, cases, deadline=deadline, chunksize=8):
            ev.add_run(res)
            for v in res["violations"]:
                rep.add(case, v)
        ev.assumptions = [
            "exact virtual time: every sleep of the throttle reads loop.time(); the arithmetic oracle uses eps = 1e-7 s and 1/2 byte per possible reset fold",
            "scopes are the *intended* sets of streams per limit level (server-wide: all server streams; per connection: control + data stream of one session; per user: all sessions of that user; per user connection; client), not the Throttle objects the implementation happened to create - so wiring mistakes are visible",
            "limit changes in mid-trace (Throttle.limit setter) are not generated",
        ]
        code = rep.finish(minimise=minimise, confirm=confirm)
    ev.write()
    print(f"{PROP}: {ev.evaluations} runs, {len(ev.nontrivial_digests)} distinct non-trivial, {ev.violations} violation classes, exit {code}")
    return code
