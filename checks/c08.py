"""C08 - file and directory names mean the same thing in every command and reply.

Real aioftp.Client <-> real aioftp.Server (spy MemoryPathIO) on the simulated network.  For
generated names (1..3 nested levels) the client makes the directory, enters it, asks PWD,
lists (MLSD, the client's default, and LIST), stats, uploads to and downloads from a file
under it, renames, deletes; after every step the backend tree must contain exactly the names
the client used and every name that comes back must be the name that went in.
"""

from __future__ import annotations

import asyncio
import gc
import pathlib
import random
import time

from checks import common
from simftp import scenario
from simftp.world import aioftp

PROP = "C08"
SPECIAL = ['"', '""', '"a', 'a"', '"a"', 'a"b', 'a""b', '"""', "a b", "a  b", " lead", "  two lead", "a;b", "a=b", "Type=dir;", "Type=dir; x", "k=v; n", "perm=el;size=0; f", "a -> b", " -> ", "-a", "-", "--", "-rw-r--r--", "250 x", "250-x", "250", "1", "007", "a\\b", "\\", "100%", "%20", "%s", "a,b", "(1,2,3,4,5,6)", "(|||40000|)", "é", "́x", "🙂", "𝒳y", "中文", "ÄÖÜ", "x.y.z", "...", "..x", ".hidden", "a\tb", "~", "*", "?", "[a]", "a'b", "`x`", "$HOME", "a:b", "C:", "Jan 1 2020", "Nov 14 22:13 name", "drwxr-xr-x 1 none none 0 Jan  1  2001 x"]
# characters that some text APIs treat as line boundaries or white space, none of which ends an
# FTP control line (only CR LF does): VT, FF, FS, GS, RS, US, NEL, LS, PS; DEL, C0 controls, zero
# width and bidi marks
SPECIAL += ["a\x0bb", "a\x0cb", "a\x1cb", "a\x1db", "a\x1eb", "a\x1fb", "a\x85b", "a\u2028b", "a\u2029b", "\x0bx", "a\x7fb", "a\x01b", "a\x1bb", "a\u200bb", "\ufeffx", "a\u202eb", "a\xa0b", "\xa0x", "a\u3000b"]
SPECIAL = [x.rstrip() for x in SPECIAL if x.rstrip()]
CHARS = 'abcXYZ019 "\';=-_.\\%,()|>:[]éж中🙂́'


# names whose bytes in a legacy 8-bit encoding happen to be valid UTF-8 as well (a server or
# client that guesses the encoding per line turns them into other names)
MOJIBAKE = {"latin-1": ["Ã©", "prix Â£5", "Ã¤Ã¶", "Â«xÂ»", "Ã"], "cp1251": ["В«xВ»", "Г©", "Р°Р±", "Ð¿".encode("latin-1", "ignore").decode("latin-1") or "Р°"]}


def gen_name(rnd, enc="utf-8"):
    for _ in range(50):
        s = _gen_name(rnd, enc)
        try:
            s.encode(enc)
            return s
        except UnicodeEncodeError:
            continue
    return "x"


def _gen_name(rnd, enc):
    k = rnd.random()
    if enc != "utf-8" and k < 0.25:
        return rnd.choice(MOJIBAKE[enc])
    if k < 0.55:
        s = rnd.choice(SPECIAL)
        if rnd.random() < 0.3:
            s = s + rnd.choice(SPECIAL)
    else:
        s = "".join(rnd.choice(CHARS) for _ in range(rnd.randint(1, 24)))
    s = s.replace("/", "").replace("\x00", "").replace("\r", "").replace("\n", "")
    s = s.rstrip()
    if s in ("", ".", ".."):
        s = "x" + s
    return s[:40].rstrip() or "x"


def gen_case(seed):
    rnd = random.Random(seed * 9973 + 4)
    depth = rnd.choice([1, 1, 2, 3])
    enc = rnd.choice(["utf-8", "utf-8", "utf-8", "latin-1", "cp1251"])
    return {"seed": seed, "names": [gen_name(rnd, enc) for _ in range(depth)], "file": gen_name(rnd, enc), "file2": gen_name(rnd, enc), "encoding": enc}


def run_case(case):
    rng = random.Random(case["seed"] * 7919 + 83)
    net = scenario.random_net(rng, allow_small_pipe=False)
    enc = case.get("encoding", "utf-8")
    sc = {"seed": case["seed"], "server": {"block_size": 64, "wait_future_timeout": 10.0, "encoding": enc}, "net": net, "fs": {"delay": None}}
    viol = []
    info = {"ops": 0}
    names = case["names"]
    world = scenario.setup_world(sc)
    with world:
        server = scenario.finish_setup(world, sc)
        client = aioftp.Client(path_io_factory=aioftp.MemoryPathIO, encoding=enc)
        P = pathlib.PurePosixPath

        def bad(clause, op, detail):
            viol.append({"clause": clause, "subject": op, "detail": f"names {names!r} file {case['file']!r}: {detail}"[:600]})

        def expect_tree(want, op):
            snap = world.snapshot()
            got = {k: (None if v is None else bytes(v)) for k, v in snap.items()}
            if got != want:
                only_w = sorted(set(want) - set(got))[:3]
                only_g = sorted(set(got) - set(want))[:3]
                bad("backend-tree-differs", op, f"after {op}: expected-but-missing {only_w!r}, unexpected {only_g!r}")
                return False
            return True

        async def main():
            await server.start("127.0.0.1", 2121)
            await client.connect("127.0.0.1", 2121)
            await client.login()
            want = {"/": None}
            cur = P("/")
            try:
                for depth, n in enumerate(names):
                    op = "make_directory"
                    await client.make_directory(n)
                    info["ops"] += 1
                    want[str(cur / n)] = None
                    if not expect_tree(want, op):
                        return
                    # listed under exactly that name, by both listing commands
                    for raw in ("MLSD", "LIST"):
                        op = f"list:{raw}"
                        got = sorted(str(p) for p, inf in await client.list(raw_command=raw))
                        info["ops"] += 1
                        if got != [n]:
                            # (a name like ' .' becomes '.' by the same stripping and is then skipped as a dot entry)
                            sub = "LIST:leading-blanks-stripped" if raw == "LIST" and n != n.lstrip() and (got == [n.lstrip()] or (got == [] and n.strip() in (".", ".."))) else op
                            bad("listed-under-another-name", sub, f"listing of {str(cur)!r} returned {got!r}, the directory was created as {n!r}")
                    op = "stat"
                    st = await client.stat(n)
                    info["ops"] += 1
                    if st.get("type") != "dir":
                        bad("stat-hits-another-object", op, f"stat({n!r}) -> {st!r}")
                    # the name as the first component of the argument (not only as the last one and
                    # not only implied by the working directory): a file inside it, addressed from
                    # the parent, and the listing *of* the named directory by both commands
                    probe = P(n) / "probe.bin"
                    for raw in ("MLSD", "LIST"):
                        op = f"list-of-named-dir:{raw}"
                        got = sorted(str(p) for p, inf in await client.list(n, raw_command=raw))
                        info["ops"] += 1
                        if got != []:
                            bad("listed-under-another-name", op, f"listing of the empty directory {n!r} (argument {n!r}) returned {got!r}")
                    op = "upload_stream-into-named-dir"
                    async with client.upload_stream(probe) as s:
                        await s.write(b"probe")
                    info["ops"] += 1
                    want[str(cur / probe)] = b"probe"
                    if not expect_tree(want, op):
                        return
                    for raw in ("MLSD", "LIST"):
                        op = f"list-of-named-dir:{raw}"
                        got = sorted(str(p) for p, inf in await client.list(n, raw_command=raw))
                        info["ops"] += 1
                        if got != [str(probe)]:
                            bad("listed-under-another-name", op, f"listing of {n!r} returned {got!r}, expected [{str(probe)!r}]")
                    if str(cur) != "/" and not case.get("no_mlsx", False):
                        # the same listing once more, through the client's own building blocks, with
                        # the data connection made only after a change of the working directory: the
                        # name was said in `cur`, it means the directory in `cur`
                        op = "list-of-named-dir:MLSD:late-data-connection"
                        _c, lines = await client.command("EPSV", "229")
                        _ip, port = client.parse_epsv_response(lines[-1])
                        await client.command("MLSD " + n, "1xx")
                        await client.change_directory("/")
                        r, w = await asyncio.open_connection("127.0.0.1", port)
                        data = await r.read()
                        w.close()
                        await client.command(None, "2xx")
                        await client.change_directory(cur)
                        got = sorted(str(client.parse_mlsx_line(ln)[0]) for ln in data.split(b"\r\n") if ln)
                        info["ops"] += 1
                        if got != ["probe.bin"]:
                            bad("listed-under-another-name", op, f"CWD {str(cur)!r}, MLSD {n!r} (150), CWD /, then the data connection: listed {got!r}, expected ['probe.bin']")
                    op = "remove_file-in-named-dir"
                    await client.remove_file(probe)
                    info["ops"] += 1
                    want.pop(str(cur / probe))
                    if not expect_tree(want, op):
                        return
                    op = "change_directory"
                    await client.change_directory(n)
                    info["ops"] += 1
                    cur = cur / n
                    op = "get_current_directory"
                    pwd = await client.get_current_directory()
                    info["ops"] += 1
                    if str(pwd) != str(cur):
                        bad("pwd-reports-another-name", op, f"PWD after entering {n!r}: client got {str(pwd)!r}, expected {str(cur)!r}")
                # a file under the innermost directory
                f, g = case["file"], case["file2"]
                data = ("content of " + f).encode("utf-8")
                op = "upload_stream"
                async with client.upload_stream(f) as s:
                    await s.write(data)
                info["ops"] += 1
                want[str(cur / f)] = data
                if not expect_tree(want, op):
                    return
                op = "download_stream"
                async with client.download_stream(f) as s:
                    got = await s.read()
                info["ops"] += 1
                if got != data:
                    bad("download-hits-another-object", op, f"downloaded {got[:40]!r}")
                op = "stat-file"
                st = await client.stat(f)
                info["ops"] += 1
                if st.get("type") != "file" or st.get("size") != str(len(data)):
                    bad("stat-hits-another-object", op, f"stat({f!r}) -> {st!r}")
                for raw in ("MLSD", "LIST"):
                    op = f"list-file:{raw}"
                    got = sorted(str(p) for p, inf in await client.list(raw_command=raw))
                    info["ops"] += 1
                    if got != [f]:
                        sub = "LIST:leading-blanks-stripped" if raw == "LIST" and f != f.lstrip() and (got == [f.lstrip()] or (got == [] and f.strip() in (".", ".."))) else op
                        bad("listed-under-another-name", sub, f"listing returned {got!r}, the file was uploaded as {f!r}")
                if g != f:
                    op = "rename"
                    await client.rename(f, g)
                    info["ops"] += 1
                    want[str(cur / g)] = want.pop(str(cur / f))
                    if not expect_tree(want, op):
                        return
                    f = g
                op = "remove_file"
                await client.remove_file(f)
                info["ops"] += 1
                want.pop(str(cur / f))
                if not expect_tree(want, op):
                    return
                for n in reversed(names):
                    op = "change_directory_up"
                    await client.change_directory("..")
                    op = "remove_directory"
                    await client.remove_directory(n)
                    info["ops"] += 1
                    want.pop(str(cur))
                    cur = cur.parent
                    if not expect_tree(want, op):
                        return
                await client.quit()
            except aioftp.StatusCodeError as e:
                bad("operation-refused", op, f"{op} failed: expected {e.expected_codes} received {e.received_codes} {e.info!r}")
            except (ValueError, KeyError, IndexError) as e:
                bad("client-cannot-parse", op, f"{op} raised {type(e).__name__}: {e!r}")
            await asyncio.sleep(1)
            await common.close_server(server)

        world.run(main())
        gc.collect()
        if world.outcome not in ("ok", "budget", "deadlock"):
            raise common.HarnessError(f"scenario failed: {world.outcome}: {world.error!r}")
        seen = set()
        out = []
        for v in viol:
            key = (v["clause"], v["subject"])
            if key not in seen:
                seen.add(key)
                out.append(v)
        res = {
            "digest": world.digest(repr(names)),
            "nontrivial": info["ops"] >= 5,
            "vtime": world.loop.time() - 1000.0,
            "events": world.net.seq,
            "steps": world.loop.steps,
            "outcome": world.outcome,
            "counters": {"client_operations_checked": info["ops"]},
            "groups": {"encoding": {enc: 1}},
            "violations": out,
        }
        if case.get("want_sample"):
            res["sample"] = {"case": case}
    return res


def confirm(case, violation):
    r = run_case(case)
    return any(v["clause"] == violation["clause"] and v["subject"] == violation["subject"] for v in r["violations"])


def minimise(case, violation):
    import copy

    def bad(c):
        try:
            r = run_case(c)
        except Exception:
            return False
        return any(v["clause"] == violation["clause"] and v["subject"] == violation["subject"] for v in r["violations"])

    cur = copy.deepcopy(case)
    cur.pop("want_sample", None)
    budget = 120
    while len(cur["names"]) > 1 and budget > 0:
        done = False
        for i in range(len(cur["names"])):
            trial = copy.deepcopy(cur)
            del trial["names"][i]
            budget -= 1
            if bad(trial):
                cur, done = trial, True
                break
        if not done:
            break
    for key in ("file", "file2"):
        trial = copy.deepcopy(cur)
        trial[key] = "f" if key == "file" else "g"
        budget -= 1
        if bad(trial):
            cur = trial
    # shrink each name character by character
    for i in range(len(cur["names"])):
        changed = True
        while changed and budget > 0:
            changed = False
            n = cur["names"][i]
            for j in range(len(n)):
                cand = (n[:j] + n[j + 1 :]).rstrip()
                if not cand or cand in (".", ".."):
                    continue
                trial = copy.deepcopy(cur)
                trial["names"][i] = cand
                budget -= 1
                if bad(trial):
                    cur, changed = trial, True
                    break
    return cur, violation


def selftest_cases(n):
    return [gen_case(130_000 + i) for i in range(n)]


def main(argv=None):
    a = common.tier_and_seed(argv)
    if a.replay:
        import json

        doc = json.load(open(a.replay))
        r = run_case(doc["case"])
        hit = [v for v in r["violations"] if v["clause"] == doc["clause"]]
        if hit:
            print(f"reproduced: {hit[0]}")
            print(f"VIOLATION property={PROP} replay={a.replay}")
            return 1
        print("not reproduced")
        return 0
    quick = a.tier == "quick"
    ev = common.Evidence(PROP, a.tier, a.seed, "exploration", "generated names (1..3 nested levels + two file names) from a generator biased to protocol metacharacters (quotes and doubled quotes, blanks incl. leading, ';', '=', MLSx-fact look-alikes, ' -> ', leading '-', digits / reply-header look-alikes, backslash, percent, PASV/EPSV-payload look-alikes, ls-line look-alikes, combining and astral characters) pushed through every path-taking client method against the real server; the backend tree and every returned name are compared after each step; non-trivial = at least five client operations were checked; distinct = distinct run digests Each directory name is also used as the first component of an argument (listing of the named directory, a file inside it addressed from the parent).")
    rep = common.Reporter(PROP, ev)
    deadline = time.time() + (a.budget or (60 if quick else 1200))
    n = 3000 if quick else 400000
    with common.Pool() as pool:
        cases = [{"seed": a.seed * 100 + i, "names": [s], "file": "f", "file2": s + "2"} for i, s in enumerate(SPECIAL)]
        cases += [{"seed": a.seed * 100 + 500 + i, "names": ["d"], "file": s, "file2": "g"} for i, s in enumerate(SPECIAL)]
        import itertools

        cases = common.with_samples(itertools.chain(cases, (gen_case(a.seed * 1_000_000 + i) for i in range(n))), 2)
        for case, res in pool.map(run_case, cases, deadline=deadline, chunksize=8):
            ev.add_run(res)
            for v in res["violations"]:
                rep.add(case, v)
        ev.assumptions = ["names contain no '/', NUL, CR, LF and no trailing whitespace (the statement's domain); '.' and '..' are not names", "no fault is injected: the statement quantifies over inputs only; the simulator supplies the two parties, segmentation and the backend observation point"]
        code = rep.finish(minimise=minimise, confirm=confirm)
    ev.write()
    print(f"{PROP}: {ev.evaluations} runs, {len(ev.nontrivial_digests)} distinct non-trivial, {ev.violations} violation classes, exit {code}")
    return code
