"""C14 - ABOR at any moment stops the transfer, is answered, and keeps the session usable.

For each (verb, size, connect mode, latency seed) a pilot run without ABOR records the
network events between "transfer command sent" and "completion reply received";
then the same seed is re-executed with ABOR injected at every event index k in that
window (plus positions before the command and after completion).
"""

from __future__ import annotations

import asyncio
import gc
import random
import time

from checks import common
from simftp import scenario
from simftp.peers import PeerGone, RawPeer, ReplyTimeout

PROP = "C14"
VERBS = ("RETR", "STOR", "APPE", "LIST", "MLSD")


def build(case):
    B = case.get("B", 16)
    rng = random.Random(case["seed"] * 104729 + 7)
    net = scenario.random_net(rng, allow_small_pipe=case.get("small_pipe", True))
    if case.get("net"):
        net.update(case["net"])
    tree = {"/d": None, "/d/src.bin": case.get("size", 3 * B), "/d/old.bin": B + 3, "/d/sub": None, "/d/sub/a": 5, "/d/sub/b": B, "/d/sub/c": 0}
    return {
        "seed": case["seed"],
        "server": {"block_size": B, "idle_timeout": None, "socket_timeout": None, "wait_future_timeout": case.get("wait", None)},
        "net": net,
        "fs": {"delay": case.get("fs_delay", [0.0002, 0.003]), "tree": tree, "short_reads": bool(case["seed"] & 2)},
    }


def run_case(case):
    sc = build(case)
    B = case.get("B", 16)
    verb = case["verb"]
    size = case.get("size", 3 * B)
    mode = case.get("connect", "before")  # before | after | never
    k_abor = case.get("k")  # network event index at which ABOR is written (None = pilot)
    viol = []
    info = {}
    world = scenario.setup_world(sc)
    with world:
        server = scenario.finish_setup(world, sc)
        peer = RawPeer(world, "s0", reply_timeout=1e6)
        up = scenario.payload("up", size)
        src = scenario.payload("/d/src.bin", size)
        old = scenario.payload("/d/old.bin", B + 3)
        subject = f"{verb}:{mode}"

        def send_abor():
            if "abor_sent_at" in info or "k_cmd" not in info or info.get("phase") == "before-pasv":
                return  # positions before the transfer command are not part of the window
            if peer.writer is not None and not peer.writer.transport.is_closing():
                info["abor_sent_at"] = world.net.seq
                info["abor_time"] = world.loop.time()
                info["abor_phase"] = info.get("phase", "?")
                peer.note("C", "ABOR")
                peer.writer.write(b"ABOR\r\n")

        if k_abor is not None:
            world.net.at_event(k_abor, send_abor)

        async def collect(window):
            """All replies until the control channel is quiet for `window` virtual seconds."""
            got = []
            while True:
                try:
                    got.append(await peer.reply(window))
                except ReplyTimeout:
                    return got, "quiet"
                except PeerGone:
                    return got, "closed"

        async def data_part(dr, dw):
            res = {"data": b"", "how": None}
            try:
                if verb in ("STOR", "APPE"):
                    pos = 0
                    step = max(1, B // 2 + 1)
                    try:
                        while pos < len(up):
                            dw.write(up[pos : pos + step])
                            pos += step
                            await dw.drain()
                        res["how"] = "sent"
                    except ConnectionError as e:
                        res["how"] = "reset:" + type(e).__name__
                    dw.close()
                else:
                    buf = bytearray()
                    try:
                        while True:
                            b = await dr.read(4096)
                            if not b:
                                res["how"] = "eof"
                                break
                            buf += b
                    except ConnectionError as e:
                        res["how"] = "reset:" + type(e).__name__
                    res["data"] = bytes(buf)
                    dw.close()
            except asyncio.CancelledError:
                res["how"] = res["how"] or "cancelled"
                dw.close()
            return res

        async def main():
            await server.start("127.0.0.1", 2121)
            await peer.connect()
            await peer.login()
            await peer.cmd("CWD /d")
            info["k0"] = world.net.seq
            info["phase"] = "before-pasv"
            await peer.passive(case.get("passive", "EPSV"))
            dr = dw = None
            if mode == "before":
                dr, dw = await peer.data_connect()
            target = {"RETR": "RETR src.bin", "STOR": "STOR new.bin", "APPE": "APPE old.bin", "LIST": "LIST sub", "MLSD": "MLSD sub"}[verb]
            if case.get("pipelined"):
                # one segment: a command that goes to the (slow) backend, the transfer command and
                # the ABOR - the ABOR is read while the transfer command is still waiting its turn
                slow = case["pipelined"]
                for line in (slow, target, "ABOR"):
                    peer.note("C", line)
                peer.writer.write(f"{slow}\r\n{target}\r\nABOR\r\n".encode())
                info["k_cmd"] = world.net.seq
                info["abor_sent_at"] = world.net.seq
                info["abor_time"] = world.loop.time()
                info["abor_phase"] = "pipelined"
                info["phase"] = "cmd-sent"
                try:
                    info["slow_reply"] = (await peer.reply(1e4))[0]
                except (PeerGone, ReplyTimeout):
                    info["slow_reply"] = None
            else:
                await peer.send(target)
                info["k_cmd"] = world.net.seq
                info["phase"] = "cmd-sent"
            dtask = None
            if mode == "after":
                # connect while the command is in flight / being handled
                await asyncio.sleep(case.get("connect_delay", 0.0005))
                try:
                    dr, dw = await peer.data_connect()
                except OSError:
                    dr = dw = None
            if dw is not None:
                dtask = world.loop.create_task(data_part(dr, dw))
            replies, how = await collect(case.get("window", 50.0))
            info["k_end"] = world.net.seq
            info["phase"] = "collected"
            if k_abor is not None and "abor_sent_at" not in info:
                # position beyond the pilot's horizon: send it now (after completion)
                send_abor()
                more, how = await collect(case.get("window", 50.0))
                replies += more
            info["replies"] = [c for c, _ in replies]
            info["control"] = how
            dres = None
            if dtask is not None:
                if not dtask.done():
                    # the peer would still be waiting for EOF: that is a violation below
                    info["data_stuck"] = True
                    dtask.cancel()
                try:
                    dres = await dtask
                except asyncio.CancelledError:
                    dres = {"data": b"", "how": "cancelled"}
            info["data_how"] = dres["how"] if dres else None
            info["data_len"] = len(dres["data"]) if dres else 0
            # -------- oracle on the reply sequence
            codes = info["replies"]
            abor_sent = "abor_sent_at" in info
            marks = [c for c in codes if c[0] == "1"]
            finals = [c for c in codes if c[0] != "1"]
            overtaken = abor_sent and len(marks) >= 1 and codes[0] == "226" and codes.index(marks[0]) >= 1
            if overtaken:
                # ABOR was sent after the transfer command but the server handled it while the
                # transfer command's handler was still running its pre-checks (no worker
                # registered yet): "226 nothing to abort", and the transfer goes ahead.
                viol.append({"clause": "abor-overtakes-transfer-handler", "subject": "transfer-not-stopped", "detail": f"replies after '{target}' + ABOR (event {info.get('abor_sent_at')}): {codes} - ABOR answered 'nothing to abort' before the 1xx mark, the transfer was not stopped"})
                peer.vanish("rst")
                if dtask is not None and not dtask.done():
                    dtask.cancel()
                await asyncio.sleep(10)
                await asyncio.wait_for(server.close(), 1000)
                return
            if how == "closed":
                viol.append({"clause": "session-ended-by-abor", "subject": subject, "detail": f"control connection closed by the server; replies {codes}, ABOR sent in phase {info.get('abor_phase')}"})
            else:
                ok = False
                if abor_sent:
                    if len(marks) == 1 and finals in (["426", "226"], ["226", "226"], ["200", "226"]):
                        ok = True
                    if not marks and len(finals) == 2 and finals[0][0] in "45" and finals[1] == "226":
                        ok = True
                    if mode == "never" and sc["server"]["wait_future_timeout"] is not None and len(marks) == 1 and finals in (["425", "226"],):
                        ok = True
                else:
                    if mode == "never":
                        ok = (sc["server"]["wait_future_timeout"] is None and codes == ["150"]) or codes == ["150", "425"]
                    else:
                        ok = len(marks) == 1 and len(finals) == 1 and finals[0][0] == "2"
                if not ok:
                    clause = "abor-reply-sequence"
                    if abor_sent and len(finals) < 2:
                        clause = "abor-not-answered"
                    elif abor_sent and len(finals) > 2:
                        clause = "abor-answered-twice"
                    viol.append({"clause": clause, "subject": subject, "detail": f"replies after '{target}' (+ABOR at event {info.get('abor_sent_at')}, phase {info.get('abor_phase')}): {codes}"})
            # -------- data connection closed, prefix property
            # a data connection that reached the server only after the ABOR had been sent is not
            # "the transfer's data connection" any more: aioftp legitimately keeps a data
            # connection that arrives while no transfer is pending for the next transfer.
            t_ab = info.get("abor_time")
            late = [t for t in world.net.transports if t.side == "s" and t.conn.port != 2121 and t_ab is not None and t.created_at >= t_ab]
            if info.get("data_stuck") and late:
                info["data_stuck"] = False
                info["late_data_conn"] = True
            open_data = [t for t in world.net.transports if t.side == "s" and t.conn.port != 2121 and not t._closing and not t._lost_called and t not in late]
            if info.get("data_stuck"):
                viol.append({"clause": "data-connection-not-closed", "subject": subject, "detail": f"peer still waiting on the data channel after replies {codes}"})
            if open_data and mode != "never":
                viol.append({"clause": "data-connection-not-closed", "subject": subject, "detail": f"server-side data transport still open after replies {codes}"})
            snap = world.snapshot()
            if verb == "RETR" and dres is not None and not src.startswith(dres["data"]):
                viol.append({"clause": "delivered-not-a-prefix", "subject": subject, "detail": f"received {len(dres['data'])} bytes that are not a prefix of the source"})
            if verb == "STOR":
                got = snap.get("/d/new.bin")
                if got is not None and not up.startswith(got):
                    viol.append({"clause": "stored-not-a-prefix", "subject": subject, "detail": f"stored {len(got)} bytes that are not a prefix of the upload"})
            if verb == "APPE":
                got = snap.get("/d/old.bin")
                if got is None or not (old + up).startswith(got) or len(got) < len(old):
                    viol.append({"clause": "stored-not-a-prefix", "subject": subject, "detail": "APPE target is not old + prefix(upload)"})
            complete = finals[:1] in (["226"], ["200"]) and len(marks) == 1
            if complete and mode != "never":
                if verb == "RETR" and dres is not None and dres["data"] != src:
                    viol.append({"clause": "completed-transfer-truncated", "subject": subject, "detail": f"completion reply but only {len(dres['data'])}/{len(src)} bytes received"})
                if verb == "STOR" and snap.get("/d/new.bin") != up:
                    viol.append({"clause": "completed-transfer-truncated", "subject": subject, "detail": "completion reply but the stored file differs from the upload"})
            # -------- follow-up: session fully usable
            pending_forever = k_abor is None and mode == "never" and sc["server"]["wait_future_timeout"] is None
            if how != "closed" and not pending_forever:
                try:
                    c, lines = await peer.cmd("PWD", 100.0)
                    reuse = case.get("follow") == "reuse" and not late and mode != "never" and not open_data
                    info["follow"] = "reuse" if reuse else "pasv"
                    r1 = await peer.upload("STOR /d/follow.bin", scenario.payload("f", 2 * B + 1), passive=None if reuse else "PASV", data_timeout=200.0)
                    r2 = await peer.download("RETR /d/follow.bin", passive=None if reuse else case.get("passive", "EPSV"), connect="after" if not reuse else "before", data_timeout=200.0)
                    okf = c == "257" and lines[0].startswith('"/d"') and r1["final"] == "226" and r2["final"] == "226" and r2["data"] == scenario.payload("f", 2 * B + 1)
                    if not okf:
                        viol.append({"clause": "session-unusable-after-abor", "subject": subject, "detail": f"follow-up: PWD {c} {lines}, STOR {r1['mark']}/{r1['final']}, RETR {r2['mark']}/{r2['final']} {len(r2['data'])} bytes"})
                    extra = await peer.no_more_replies(20.0)
                    if not extra:
                        viol.append({"clause": "stray-reply", "subject": subject, "detail": f"an extra reply arrived after the follow-up: {peer.replies[-1]}"})
                except (PeerGone, ReplyTimeout, ConnectionError) as e:
                    # (ConnectionRefusedError: the passive listener announced before the ABOR is gone)
                    viol.append({"clause": "session-unusable-after-abor", "subject": subject, "detail": f"follow-up failed with {type(e).__name__}; transcript tail {peer.transcript[-4:]}"})
            peer.close()
            await asyncio.sleep(10)
            try:
                await asyncio.wait_for(server.close(), 1000)
            except asyncio.TimeoutError:
                # the aborted session can no longer be torn down: it is not "continuing normally"
                viol.append({"clause": "session-unusable-after-abor", "subject": subject, "detail": f"after the ABOR exchange (replies {codes}) and the client's disconnect, Server.close() did not complete within 1000 virtual seconds"})

        world.run(main())
        gc.collect()
        if world.outcome == "deadlock":
            viol.append({"clause": "hang", "subject": subject, "detail": "simulation deadlocked"})
        elif common.frozen_violation(world):
            viol.append(common.frozen_violation(world, subject))
        elif world.outcome not in ("ok", "budget"):
            raise common.HarnessError(f"scenario failed: {world.outcome}: {world.error!r}")
        for e in world.loop.exc_log:
            if "never retrieved" in e["message"]:
                continue  # log hygiene (an un-retrieved task exception), not something the property forbids
            viol.append({"clause": "unhandled-exception", "subject": f"{subject}:{e['exc_type']}", "detail": f"{e['message']}: {e['exception']}"})
        digest = world.digest([tuple(x[1:]) for x in peer.transcript])
        res = {
            "digest": digest,
            "nontrivial": "abor_sent_at" in info,
            "vtime": world.loop.time() - 1000.0,
            "events": world.net.seq,
            "steps": world.loop.steps,
            "outcome": world.outcome,
            "counters": {"faults.abor_sent": int("abor_sent_at" in info), "probe.abor_interrupted_426": int("426" in info.get("replies", [])), "probe.abor_after_completion": int(info.get("replies", [])[-2:] in (["226", "226"], ["200", "226"])), "probe.abor_before_data_conn": int(info.get("abor_phase") == "cmd-sent" and mode in ("after", "never")), "probe.data_conn_arrived_after_abor": int(bool(info.get("late_data_conn"))), "probe.followup_reuses_listener": int(info.get("follow") == "reuse")},
            "groups": {"replies": {" ".join(info.get("replies", [])): 1}},
            "violations": _dedupe(viol),
            "k_cmd": info.get("k_cmd"),
            "k_end": info.get("k_end"),
            "k0": info.get("k0"),
        }
        if case.get("want_sample"):
            res["sample"] = {"case": case, "replies": info.get("replies"), "abor_phase": info.get("abor_phase"), "transcript": [list(x) for x in peer.transcript][:40]}
    return res


def _dedupe(viol):
    seen = set()
    out = []
    for v in viol:
        key = (v["clause"], v["subject"])
        if key not in seen:
            seen.add(key)
            out.append(v)
    return out


def confirm(case, violation):
    r = run_case(case)
    return any(v["clause"] == violation["clause"] and v["subject"] == violation["subject"] for v in r["violations"])


def minimise(case, violation):
    def bad(c):
        try:
            r = run_case(c)
        except Exception:
            return False
        return any(v["clause"] == violation["clause"] and v["subject"] == violation["subject"] for v in r["violations"])

    cur = dict(case)
    for change in ({"fs_delay": None}, {"net": {"seg_mode": "whole", "latency": [0.001, 0.001], "capacity": 262144, "high_water": 65536, "send_delay": 0.0, "accept_delay": [0.0, 0.0]}}, {"size": 16}, {"small_pipe": False}):
        trial = dict(cur)
        trial.update(change)
        if trial != cur and bad(trial):
            cur = trial
    cur.pop("want_sample", None)
    return cur, violation


def selftest_cases(n):
    r = random.Random(1414)
    out = []
    for i in range(n):
        out.append({"verb": r.choice(VERBS), "seed": r.randrange(10**6), "size": r.choice([0, 1, 16, 33, 80]), "connect": r.choice(["before", "after", "never"]), "k": r.randrange(20, 140), "passive": r.choice(["EPSV", "PASV"]), "follow": r.choice(["reuse", "pasv"])})
    return out


def main(argv=None):
    a = common.tier_and_seed(argv)
    if a.replay:
        import json

        doc = json.load(open(a.replay))
        r = run_case(doc["case"])
        hit = [v for v in r["violations"] if v["clause"] == doc["clause"]]
        if hit:
            print(f"reproduced: {hit[0]}")
            print(f"VIOLATION property={PROP} replay={a.replay}")
            return 1
        print("not reproduced")
        return 0
    quick = a.tier == "quick"
    ev = common.Evidence(PROP, a.tier, a.seed, "fault_enumeration", "verb x size x data-connect mode x passive verb x latency seed; pilot without ABOR fixes the event window [command sent, completion + margin]; ABOR injected at every network event index in the window; non-trivial = ABOR was actually sent; distinct = distinct run digests")
    rep = common.Reporter(PROP, ev)
    B = 16
    sizes = [0, 1, B, 2 * B + 1, 5 * B]
    rnd = random.Random(a.seed)
    combos = []
    nseed = 1 if quick else 4
    for s in range(nseed):
        for verb in VERBS:
            for size in sizes if verb in ("RETR", "STOR", "APPE") else [0]:
                for mode in ("before", "after", "never"):
                    if quick and rnd.random() < 0.45:
                        continue
                    combos.append({"verb": verb, "size": size, "connect": mode, "seed": a.seed * 1000 + s * 97 + len(combos), "passive": rnd.choice(["EPSV", "PASV"]), "wait": rnd.choice([None, None, 5.0]) if mode == "never" else None})
    deadline = time.time() + (a.budget or (100 if quick else 1500))
    with common.Pool() as pool:
        for i, c in enumerate(combos[:2]):
            c["want_sample"] = True
        plan = []
        for case, res in pool.map(run_case, combos, chunksize=1):
            ev.add_run(res)
            for v in res["violations"]:
                rep.add(case, v)
            lo = res["k_cmd"] + 1  # ABOR always travels behind the transfer command
            hi = res["k_end"] + 3
            ks = list(range(lo, hi + 1))
            if quick and len(ks) > 60:
                ks = sorted(rnd.sample(ks, 60))
            for k in ks:
                d = {kk: vv for kk, vv in case.items() if kk != "want_sample"}
                d["k"] = k
                d["follow"] = "reuse" if (k + d["seed"]) % 2 else "pasv"
                plan.append(d)
        # pipelined variants (no sweep position: the three lines travel together)
        pip = []
        for ci, case in enumerate(combos):
            if case["connect"] == "never" and case.get("wait") is None and ci % 2:
                continue
            for slow in ("MLST src.bin", "NOOP", "CWD /d"):
                d = {kk: vv for kk, vv in case.items() if kk != "want_sample"}
                d["pipelined"] = slow
                d["follow"] = "reuse" if (ci + len(slow)) % 2 else "pasv"
                pip.append(d)
        plan = pip + plan
        total = len(plan)
        for c in plan[:2]:
            c["want_sample"] = True
        done = 0
        for case, res in pool.map(run_case, plan, deadline=deadline):
            done += 1
            ev.add_run(res)
            for v in res["violations"]:
                rep.add(case, v)
        ev.extra["sweep"] = {"combos": len(combos), "positions_planned": total, "positions_run": done, "complete": done == total and not quick}
        ev.assumptions = [
            "ABOR is sent as a plain control line (no Telnet IP/Synch urgent data: aioftp does not implement them either)",
            "the peer reads all replies until the control channel is quiet for 50 virtual seconds",
        ]
        code = rep.finish(minimise=minimise, confirm=confirm)
    ev.write()
    print(f"{PROP}: {ev.evaluations} runs, {len(ev.nontrivial_digests)} distinct non-trivial, {ev.violations} violation classes, exit {code}")
    return code
