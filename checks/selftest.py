"""Determinism self-test: the same cases are executed (a) on 16 workers, (b) on 3
workers, (c) in a fresh interpreter under another PYTHONHASHSEED; all run digests must
agree pairwise.  A divergence is a harness error (exit 2), never a pass."""
from __future__ import annotations

import importlib
import json
import os
import subprocess
import sys

from checks import common

MODULES = ["c01", "c02", "c03", "c04", "c05", "c06", "c07", "c08", "c09", "c10", "c11", "c12", "c13", "c14", "c15", "c16", "c17", "c18", "c19", "c20"]
import os as _os
if _os.environ.get("SELFTEST_ONLY"):
    MODULES = _os.environ["SELFTEST_ONLY"].split(",")


def _run(args):
    modname, case = args
    mod = importlib.import_module(f"checks.{modname}")
    r = mod.run_case(case)
    return r["digest"]


def digests(modname, cases, nproc):
    out = {}
    with common.Pool(nproc) as pool:
        for (m, case), d in pool.map(_run, [(modname, c) for c in cases]):
            out[json.dumps(case, sort_keys=True, default=repr)] = d
    return out


def main(argv=None):
    argv = argv or []
    if argv and argv[0] == "--child":
        modname, n = argv[1], int(argv[2])
        mod = importlib.import_module(f"checks.{modname}")
        cases = mod.selftest_cases(n)
        print(json.dumps(digests(modname, cases, 4)))
        return 0
    n = int(argv[0]) if argv else 300
    mods = [m for m in MODULES]
    bad = 0
    total = 0
    for modname in mods:
        mod = importlib.import_module(f"checks.{modname}")
        cases = mod.selftest_cases(n)
        a = digests(modname, cases, 16)
        b = digests(modname, cases, 3)
        env = dict(os.environ)
        env["PYTHONHASHSEED"] = "12345"
        p = subprocess.run([sys.executable, "-c", f"import sys; sys.path.insert(0, {common.VERIF!r}); from checks import selftest; sys.exit(selftest.main(['--child', {modname!r}, '{n}']))"], env=env, capture_output=True, text=True, timeout=3000)
        if p.returncode != 0:
            print(p.stderr[-2000:], file=sys.stderr)
            return 2
        c = json.loads(p.stdout.strip().splitlines()[-1])
        mism = [k for k in a if not (a[k] == b.get(k) == c.get(k))]
        total += len(a)
        bad += len(mism)
        print(f"{modname}: {len(a)} cases x 3 executions, {len(mism)} digest mismatches, {len(set(a.values()))} distinct digests")
        for k in mism[:5]:
            print("  MISMATCH", k, a[k], b.get(k), c.get(k))
    print(f"determinism selftest: {total} cases, {bad} mismatches")
    return 2 if bad else 0
