"""C17 - concurrent sessions do not interfere with each other.

2..3 corpus scripts run on disjoint subtrees - either under private prefix directories of one
base directory (same or different users), or under *different users' base directories with
identical textual paths*.  Each script is first run solo (reference), then all together
under seeded interleavings (network latencies, backend latencies, task-hash salt, start
offsets); optionally session 0 is cut (RST / FIN), suffers a backend fault or ends early
while the others are mid-transfer.  Oracle: every non-faulted session's transcript (codes
and texts with ports / time facts masked), the bytes it received and its subtree of the
final backend tree equal those of its solo run.
"""

from __future__ import annotations

import errno
import gc
import random
import time

from checks import common
from checks.c13 import essence, _diff, _j
from simftp import corpus, scenario

PROP = "C17"
NAMES = sorted(n for n in corpus.scripts() if n not in ("no_dconn", "idle", "relogin", "pipelined"))
USERS_PREFIX = [{"login": None}, {"login": "u1", "password": "pw1"}, {"login": "u2"}]


def build(case, only=None):
    B = case.get("B", 16)
    rng = random.Random(case["seed"] * 7919 + 71 + (0 if only is None else 1000 * (only + 1)))
    net = scenario.random_net(rng, allow_small_pipe=case.get("small_pipe", True))
    S = corpus.scripts(B)
    tree = {}
    sessions = []
    users = []
    mode = case.get("mode", "prefix")
    for i, name in enumerate(case["scripts"]):
        script = [list(op) for op in S[name]]
        if mode == "prefix":
            prefix = f"/s{i}"
            tree.update(corpus.tree(prefix, B))
            login = case.get("logins", ["anonymous"] * 3)[i]
            script = [["connect"], ["login", login, "pw1"], ["cmd", "CWD {P}"]] + script[3:]
        else:
            prefix = ""
            base = f"/base{i}"
            for k, v in corpus.tree("", B).items():
                tree[base + k if k else base] = v
            tree[base] = None
            users.append({"login": f"user{i}", "password": f"pw{i}", "base_path": base})
            script = [["connect"], ["login", f"user{i}", f"pw{i}"], ["cmd", "PWD"]] + script[3:]
            script = [[(x.replace("{P}/", "").replace("{P}", "/") if isinstance(x, str) else x) for x in op] for op in script]
        if script[-1][0] != "quit":
            script.append(["quit"])
        if only is not None and i != only:
            continue
        start = 0.0 if only is not None else case.get("starts", [0.0, 0.0007, 0.0013])[i]
        sessions.append({"label": f"s{i}", "script": script, "prefix": prefix, "start": start, "data_timeout": 2000.0, "reply_timeout": 5000.0})
    faults = []
    if only is None and case.get("fault"):
        f = case["fault"]
        if f["kind"] == "cut":
            faults.append({"at": ["event", f["k"]], "do": "vanish", "session": "s0", "how": f.get("how", "rst")})
        elif f["kind"] == "fs":
            faults.append({"at": ["fslabel", f["k"]], "session": "s0", "errno": errno.EIO})
        elif f["kind"] == "cutstep":
            # the peer of session 0 vanishes at event-loop step k (zero-latency network: a step is
            # one wake-up of one task, so this reaches the middle of a handler)
            faults.append({"at": ["step", f["k"]], "do": "vanish", "session": "s0", "how": f.get("how", "rst")})
    srv = {"block_size": B, "idle_timeout": None, "socket_timeout": None, "wait_future_timeout": None, "users": users if mode == "base" else [dict(u) for u in USERS_PREFIX]}
    if case.get("data_ports"):
        srv["data_ports"] = list(case["data_ports"])
    if case.get("net"):
        net.update(case["net"])
    lim = case.get("limits")
    if lim:
        # a speed limit shared by all sessions (server-wide, or per user with every session on
        # one account) next to a socket_timeout: alone, a block costs frac * T of throttle wait;
        # with the others' traffic on the same throttle the wait exceeds T.  A limit may slow a
        # session down; it must not change what the session is told.  (Downloads and plain
        # commands only: an uploading peer that waits for the throttled 150 mark before it sends
        # really does leave the data connection silent for longer than socket_timeout.)
        rate = max(1, int(B / (lim["frac"] * lim["T"])))
        srv["socket_timeout"] = lim["T"]
        if lim["level"] == "server":
            srv["read_speed_limit"] = rate
            srv["write_speed_limit"] = rate
        else:
            for u in srv["users"]:
                u["read_speed_limit"] = rate
                u["write_speed_limit"] = rate
    return {
        "seed": case["seed"] + (0 if only is None else 7),
        "server": srv,
        "net": net,
        "fs": {"delay": case.get("fs_delay", [0.0001, 0.003]), "tree": tree, "short_reads": bool(case["seed"] & 1)},
        "sessions": sessions,
        "faults": faults,
        "settle": 500.0,
        "session_deadline": 50000.0,
        "final_close": True,
    }


def subtree(snap, case, i):
    if case.get("mode", "prefix") == "prefix":
        pre = f"/s{i}"
    else:
        pre = f"/base{i}"
    return {k: v for k, v in snap.items() if k == pre or k.startswith(pre + "/")}


# every path is absolute and under the session's own subtree: the sessions stay on disjoint paths
# whatever USER / CWD / CDUP do to their working directories
LOCK_POOL = ["PWD", "NOOP", "SYST", "TYPE I", "TYPE A", "MKD /s{i}/m{r}", "RMD /s{i}/m{r}", "CWD /s{i}/d1", "CWD /s{i}", "CDUP", "MLST /s{i}/a.bin", "MLST /s{i}/nope", "RNFR /s{i}/a.bin", "RNTO /s{i}/a2.bin", "RNFR /s{i}/a2.bin", "RNTO /s{i}/a.bin", "DELE /s{i}/b.bin", "REST 3", "EPSV", "PASV", "ABOR", "PBSZ 0", "PROT P", "USER anonymous", "USER u1", "PASS pw1", "PASS bad", "USER u2", "USER ghost", "FOO"]


def gen_lockstep(seed):
    rnd = random.Random(seed * 6151 + 19)
    n = rnd.choice([2, 2, 3])
    rounds = rnd.randint(3, 10)
    # the same verb at the same instant in sessions whose state differs: one logged in, one not,
    # one in the middle of a rename ...
    common_verbs = [rnd.choice(LOCK_POOL) for _ in range(rounds)]
    if rnd.random() < 0.3:
        # login-heavy rounds: the same accounts taken, botched and taken again by several sessions
        common_verbs = [rnd.choice(["USER u1", "PASS bad", "PASS pw1", "USER u1", "USER u2", "PWD", "USER anonymous"]) for _ in range(rounds)]
    scripts = []
    for i in range(n):
        pre = rnd.choice([[], ["USER anonymous", "CWD /s{i}"], ["USER u1"], ["USER u1", "PASS pw1", "CWD /s{i}"], ["USER u2", "CWD /s{i}", "RNFR /s{i}/a.bin"], ["USER anonymous", "CWD /s{i}", "EPSV"]])
        own = [c if rnd.random() < 0.6 else rnd.choice(LOCK_POOL) for c in common_verbs]
        scripts.append({"pre": pre, "lines": own})
    # per-user connection limits that correct accounting never reaches (one slot per session)
    return {"kind": "lockstep", "seed": seed, "sessions": scripts, "scripts": ["lockstep"] * n, "user_limit": rnd.choice([None, n, n]), "data_ports": rnd.choice([None, n, n + 1])}


def _run_lockstep(case, only=None):
    """All sessions write their k-th line in the same event-loop step of a zero-latency network,
    so that the server reads them in the same iteration and their handlers advance in exact
    lock-step; `only` = index of the session to run alone (reference)."""
    from simftp.peers import PeerGone, RawPeer, ReplyTimeout
    import asyncio

    B = 16
    tree = {}
    n = len(case["sessions"])
    for i in range(n):
        tree.update(corpus.tree(f"/s{i}", B))
    users = [dict(u, maximum_connections=case.get("user_limit")) for u in corpus.USERS]
    # a passive port pool with one port per session (correct accounting never runs out)
    ports = [41001 + j for j in range(case["data_ports"])] if case.get("data_ports") else None
    sc = {"seed": case["seed"], "server": {"block_size": B, "wait_future_timeout": 5.0, "users": users, "data_ports": ports}, "net": {"latency": [0.0, 0.0], "send_delay": 0.0, "accept_delay": [0.0, 0.0], "seg_mode": "whole"}, "fs": {"delay": None, "tree": tree}}
    world = scenario.setup_world(sc)
    out = {}
    with world:
        server = scenario.finish_setup(world, sc)
        idx = [i for i in range(n) if only is None or i == only]
        peers = {i: RawPeer(world, f"s{i}", reply_timeout=200.0) for i in idx}
        got = {i: [] for i in idx}

        def fmt(line, i, r):
            return line.replace("{i}", str(i)).replace("{r}", str(r % 2))

        async def one_reply(i):
            try:
                code, lines = await peers[i].reply(200.0)
                return code + " " + " | ".join(lines)
            except ReplyTimeout:
                return "<no reply>"
            except PeerGone:
                return "<closed>"

        async def connect(i):
            await peers[i].connect()
            for line in case["sessions"][i]["pre"]:
                await peers[i].cmd(fmt(line, i, 0))

        async def main():
            await server.start("127.0.0.1", 2121)
            for i in idx:
                await world.spawn(connect(i), f"s{i}")
            rounds = max(len(s["lines"]) for s in case["sessions"])
            for r in range(rounds):
                alive = [i for i in idx if r < len(case["sessions"][i]["lines"]) and not peers[i].writer.transport.is_closing() and (not got[i] or got[i][-1] not in ("<closed>", "<no reply>"))]
                for i in alive:  # same step: no await between the writes
                    line = fmt(case["sessions"][i]["lines"][r], i, r)
                    peers[i].note("C", line)
                    peers[i].writer.write((line + "\r\n").encode())
                for i in alive:
                    got[i].append(await one_reply(i))
                await asyncio.sleep(0.5)
            for i in idx:
                peers[i].close()
            await asyncio.sleep(1)
            snap = {k: (None if v is None else bytes(v)) for k, v in world.snapshot().items()}
            for i in idx:
                out[i] = (got[i], {k: v for k, v in snap.items() if k == f"/s{i}" or k.startswith(f"/s{i}/")})
            await common.close_server(server)

        world.run(main())
        if world.outcome not in ("ok",):
            raise common.HarnessError(f"lock-step run failed: {world.outcome}: {world.error!r}")
        meta = {"digest": world.digest([[tuple(x[1:]) for x in peers[i].transcript] for i in idx]), "vtime": world.loop.time() - 1000.0, "events": world.net.seq, "steps": world.loop.steps}
    return out, meta


_MASK = None


def _mask(txt):
    import re

    return re.sub(r"\(\|\|\|\d+\|\)|\(\d+,\d+,\d+,\d+,\d+,\d+\)", "(P)", re.sub(r"(?i)(modify|create)=\d+;", "T;", txt))


def run_lockstep_case(case):
    viol = []
    n = len(case["sessions"])
    ref = {}
    for i in range(n):
        o, _ = _run_lockstep(case, only=i)
        ref[i] = o[i]
    together, meta = _run_lockstep(case)
    same_verb_rounds = 0
    rounds = max(len(s["lines"]) for s in case["sessions"])
    for r in range(rounds):
        verbs = [s["lines"][r].split()[0] for s in case["sessions"] if r < len(s["lines"])]
        if len(verbs) > 1 and len(set(verbs)) < len(verbs):
            same_verb_rounds += 1
    for i in range(n):
        a = [_mask(x) for x in together[i][0]]
        b = [_mask(x) for x in ref[i][0]]
        if a != b:
            k = next((j for j, (x, y) in enumerate(zip(a, b)) if x != y), min(len(a), len(b)))
            viol.append({"clause": "bystander-replies-differ", "subject": "lockstep", "detail": f"session s{i} (pre {case['sessions'][i]['pre']}, lines {case['sessions'][i]['lines']}) sending its commands at the same instants as the other sessions: reply {k} was {a[k] if k < len(a) else None!r}, alone it is {b[k] if k < len(b) else None!r}; others: {[s['lines'] for j, s in enumerate(case['sessions']) if j != i]}"[:900]})
        if together[i][1] != ref[i][1]:
            viol.append({"clause": "bystander-tree-differs", "subject": "lockstep", "detail": f"session s{i}'s subtree differs from its solo run: {sorted(set(together[i][1]) ^ set(ref[i][1]))[:4]}"})
    res = {
        "digest": meta["digest"],
        "nontrivial": same_verb_rounds > 0,
        "vtime": meta["vtime"],
        "events": meta["events"],
        "steps": meta["steps"],
        "outcome": "ok",
        "counters": {"mode.lockstep": 1, "probe.same_verb_same_instant_rounds": same_verb_rounds},
        "groups": {},
        "violations": viol,
    }
    if case.get("want_sample"):
        res["sample"] = {"case": case, "replies_s0": together[0][0]}
    return res


def run_case(case):
    if case.get("kind") == "lockstep":
        return run_lockstep_case(case)
    n = len(case["scripts"])
    viol = []
    # ---- solo references
    ref = {}
    for i in range(n):
        if case.get("fault") and i == 0:
            continue
        obs = scenario.run_scenario(build(case, only=i))
        fz = common.frozen_violation(obs.world)
        if fz:
            # the server freezes even with this one session on it
            return {"digest": obs.digest, "nontrivial": False, "vtime": obs.vtime, "events": obs.events, "steps": obs.steps, "outcome": obs.outcome, "counters": {"probe.spin_detected": 1}, "groups": {}, "violations": [fz]}
        if obs.outcome not in ("ok",):
            raise common.HarnessError(f"solo run failed: {obs.outcome}: {obs.error!r}")
        s = obs.sessions[f"s{i}"]
        ref[i] = (_j(essence(s)), subtree(obs.world.snapshot(), case, i), s.ended)
    # ---- together
    marks = {}

    def inspect(world, obs, phase):
        if phase == "settled":
            marks["snap"] = world.snapshot()
            marks["max_in_flight"] = world.fsctl.max_in_flight

    obs = scenario.run_scenario(build(case), inspect=inspect)
    gc.collect()
    if common.frozen_violation(obs.world):
        # one session's activity froze the loop for all of them
        viol.append(common.frozen_violation(obs.world))
    elif obs.outcome not in ("ok", "deadlock", "budget"):
        raise common.HarnessError(f"scenario failed: {obs.outcome}: {obs.error!r}")
    if obs.outcome == "deadlock":
        viol.append({"clause": "hang", "subject": "deadlock", "detail": "simulation deadlocked"})
    snap = marks.get("snap", {})
    for i, (e_ref, t_ref, ended_ref) in ref.items():
        s = obs.sessions.get(f"s{i}")
        e = _j(essence(s)) if s is not None else None
        script = case["scripts"][i]
        if e != e_ref:
            viol.append({"clause": "session-observed-something-else", "subject": f"{case.get('mode', 'prefix')}", "detail": f"session s{i} ({script}) next to {[x for j, x in enumerate(case['scripts']) if j != i]} (fault on s0: {case.get('fault')}): {_diff(e, e_ref)}"})
        t = subtree(snap, case, i)
        if t != t_ref:
            only_a = sorted(set(t) - set(t_ref))[:3]
            only_b = sorted(set(t_ref) - set(t))[:3]
            diff = [k for k in t if k in t_ref and t[k] != t_ref[k]][:3]
            viol.append({"clause": "session-subtree-differs", "subject": f"{case.get('mode', 'prefix')}", "detail": f"subtree of s{i} ({script}): only-together {only_a}, only-solo {only_b}, different content {diff}"})
    # nothing outside the sessions' subtrees may appear
    allowed = set()
    for i in range(n):
        allowed |= set(subtree(snap, case, i))
    extra = [k for k in snap if k not in allowed and k != "/"]
    if extra and not case.get("fault"):  # a faulted session 0 may have lost its CWD and written elsewhere
        viol.append({"clause": "foreign-paths-created", "subject": case.get("mode", "prefix"), "detail": f"paths outside every session's subtree: {extra[:5]}"})
    seen = set()
    out = []
    for v in viol:
        key = (v["clause"], v["subject"])
        if key not in seen:
            seen.add(key)
            out.append(v)
    # interleaving signature: order of network events projected on session labels
    sig = []
    last = None
    for (seq, vt, kind, cid, side, nb) in obs.world.net.log:
        lab = obs.world.net.conns[cid].label if 0 <= cid < len(obs.world.net.conns) else None
        if lab != last:
            sig.append(lab)
            last = lab
    import hashlib

    sigd = hashlib.sha256(repr(sig).encode()).hexdigest()[:12]
    res = {
        "digest": obs.digest,
        "nontrivial": len(sig) > n + 1,
        "vtime": obs.vtime,
        "events": obs.events,
        "steps": obs.steps,
        "outcome": obs.outcome,
        "counters": {"sessions_compared_with_solo": len(ref), "probe.two_sessions_inside_backend_at_once": int(marks.get("max_in_flight", 0) > 1), "context_switches_between_sessions": len(sig), "faults.on_session_0": int(bool(case.get("fault")) and len(obs.faults_fired) > 0)},
        "groups": {"interleaving_signature": {sigd: 1}, "mode": {case.get("mode", "prefix"): 1}},
        "violations": out,
    }
    if case.get("want_sample"):
        res["sample"] = {"case": case, "interleaving_prefix": sig[:40], "essence_s1": ref.get(1, (None,))[0]}
    return res


def gen_case(seed):
    rnd = random.Random(seed * 6151 + 17)
    n = rnd.choice([2, 2, 3])
    case = {"seed": seed, "scripts": [rnd.choice(NAMES) for _ in range(n)], "mode": rnd.choice(["prefix", "prefix", "base"]), "starts": [0.0] + [rnd.choice([0.0, 0.0005, 0.003, 0.02]) for _ in range(n - 1)]}
    if case["mode"] == "prefix":
        case["logins"] = [rnd.choice(["anonymous", "anonymous", "u1", "u2"]) for _ in range(n)]
    else:
        # identical scripts on different users' base directories: the same textual paths everywhere
        if rnd.random() < 0.6:
            case["scripts"] = [case["scripts"][0]] * n
    if rnd.random() < 0.15:
        n = 3
        case.update({"scripts": [rnd.choice(["big_retr", "big_retr", "mlsd_list", "rest_retr", "walk", "mlst", "misc"]) for _ in range(n)], "mode": "prefix", "starts": [0.0, 0.0, 0.0005], "B": 64, "small_pipe": False})
        case["logins"] = [rnd.choice(["anonymous", "u2"])] * n
        case["limits"] = {"level": rnd.choice(["server", "user"]), "T": rnd.choice([0.5, 1.0]), "frac": rnd.choice([0.4, 0.45])}
        return case
    x = rnd.random()
    if x < 0.25:
        case["fault"] = {"kind": "cut", "k": rnd.randrange(5, 150), "how": rnd.choice(["rst", "fin"])}
    elif x < 0.4:
        case["fault"] = {"kind": "fs", "k": rnd.randrange(1, 40)}
    return case


def confirm(case, violation):
    r = run_case(case)
    return any(v["clause"] == violation["clause"] and v["subject"] == violation["subject"] for v in r["violations"])


def minimise(case, violation):
    import copy

    def bad(c):
        try:
            r = run_case(c)
        except Exception:
            return False
        return any(v["clause"] == violation["clause"] and v["subject"] == violation["subject"] for v in r["violations"])

    cur = copy.deepcopy(case)
    cur.pop("want_sample", None)
    if cur.get("kind") == "lockstep":
        rounds = max(len(x["lines"]) for x in cur["sessions"])
        for r in range(rounds - 1, -1, -1):
            trial = copy.deepcopy(cur)
            for x in trial["sessions"]:
                if r < len(x["lines"]):
                    del x["lines"][r]
            if all(x["lines"] for x in trial["sessions"]) and bad(trial):
                cur = trial
        return cur, violation
    if len(cur["scripts"]) == 3:
        for drop in (2, 1):
            trial = copy.deepcopy(cur)
            del trial["scripts"][drop]
            del trial["starts"][drop]
            if "logins" in trial:
                del trial["logins"][drop]
            if bad(trial):
                cur = trial
                break
    for key, val in (("fault", None), ("fs_delay", None), ("small_pipe", False)):
        if cur.get(key) == val:
            continue
        trial = copy.deepcopy(cur)
        if val is None:
            trial.pop(key, None)
        else:
            trial[key] = val
        if bad(trial):
            cur = trial
    return cur, violation


def selftest_cases(n):
    return [gen_case(110_000 + i) for i in range(n)] + [gen_lockstep(111_000 + i) for i in range(n // 2)]


def main(argv=None):
    a = common.tier_and_seed(argv)
    if a.replay:
        import json

        doc = json.load(open(a.replay))
        r = run_case(doc["case"])
        hit = [v for v in r["violations"] if v["clause"] == doc["clause"]]
        if hit:
            print(f"reproduced: {hit[0]}")
            print(f"VIOLATION property={PROP} replay={a.replay}")
            return 1
        print("not reproduced")
        return 0
    quick = a.tier == "quick"
    ev = common.Evidence(PROP, a.tier, a.seed, "exploration", "pairs / triples of corpus scripts on disjoint subtrees (private prefixes of one base directory with same or different users, or different users' base directories with identical textual paths), each run solo and then together under seeded interleavings (latencies, backend delays, start offsets, task-hash salt), optionally with session 0 cut / faulted; non-trivial = the sessions' network events actually alternated; distinct = distinct run digests; distinct interleavings are counted by signature (order of network events projected on session ids) A step sweep tears session 0 down at every event-loop step of its login / EPSV / PASV exchange on a one-port passive pool while session 1 starts later.  Every third case is a lock-step run: 2..3 raw sessions in different states write their k-th line in the same event-loop step.")
    rep = common.Reporter(PROP, ev)
    deadline = time.time() + (a.budget or (75 if quick else 1500))
    n = 1500 if quick else 200000
    with common.Pool() as pool:
        def gen():
            # step sweep: session 0 is torn down at every event-loop step of its connect / login /
            # CWD / EPSV / PASV exchange on a server with a one-port passive pool; session 1 starts
            # three seconds later and must see what it sees alone (a listener orphaned by the
            # teardown would keep the only port busy)
            for k in range(1, 170):
                for how in ("rst", "fin"):
                    yield {"seed": a.seed * 1000 + 7, "scripts": ["no_dconn", ("stor_retr", "mlsd_list", "big_retr")[k % 3]], "mode": "prefix", "logins": ["anonymous", "anonymous"], "starts": [0.0, 3.0], "data_ports": [40000], "small_pipe": False, "fs_delay": None, "net": {"latency": [0.0, 0.0], "send_delay": 0.0, "accept_delay": [0.0, 0.0], "seg_mode": "whole"}, "fault": {"kind": "cutstep", "k": k, "how": how}}
            for i in range(n):
                yield gen_case(a.seed * 1_000_000 + i)
                if i % 2 == 0:
                    yield gen_lockstep(a.seed * 1_000_000 + i)

        cases = common.with_samples(gen(), 3)
        for case, res in pool.map(run_case, cases, deadline=deadline, chunksize=4):
            ev.add_run(res)
            for v in res["violations"]:
                rep.add(case, v)
        ev.extra["distinct_interleavings"] = len(ev.groups.get("interleaving_signature", {}))
        ev.groups.pop("interleaving_signature", None)
        ev.assumptions = ["isolation is judged against the session's own solo run on the same tree (differential oracle); passive port numbers, Modify/Create facts and ls dates are masked", "a session that is itself cut / faulted is not compared"]
        code = rep.finish(minimise=minimise, confirm=confirm)
    ev.write()
    print(f"{PROP}: {ev.evaluations} runs, {len(ev.nontrivial_digests)} distinct non-trivial, {ev.violations} violation classes, exit {code}")
    return code
