"""C17 - concurrent sessions do not interfere with each other.

2..3 corpus scripts run on disjoint subtrees - either under private prefix directories of one
base directory (same or different users), or under *different users' base directories with
identical textual paths*.  Each script is first run solo (reference), then all together
under seeded interleavings (network latencies, backend latencies, task-hash salt, start
offsets); optionally session 0 is cut (RST / FIN), suffers a backend fault or ends early
while the others are mid-transfer.  Oracle: every non-faulted session's transcript (codes
and texts with ports / time facts masked), the bytes it received and its subtree of the
final backend tree equal those of its solo run.
"""

from __future__ import annotations

import errno
import gc
import random
import time

from checks import common
from checks.c13 import essence, _diff, _j
from simftp import corpus, scenario

PROP = "C17"
NAMES = sorted(n for n in corpus.scripts() if n not in ("no_dconn", "idle", "relogin", "pipelined"))
USERS_PREFIX = [{"login": None}, {"login": "u1", "password": "pw1"}, {"login": "u2"}]


def build(case, only=None):
    B = case.get("B", 16)
    rng = random.Random(case["seed"] * 7919 + 71 + (0 if only is None else 1000 * (only + 1)))
    net = scenario.random_net(rng, allow_small_pipe=case.get("small_pipe", True))
    S = corpus.scripts(B)
    tree = {}
    sessions = []
    users = []
    mode = case.get("mode", "prefix")
    for i, name in enumerate(case["scripts"]):
        script = [list(op) for op in S[name]]
        if mode == "prefix":
            prefix = f"/s{i}"
            tree.update(corpus.tree(prefix, B))
            login = case.get("logins", ["anonymous"] * 3)[i]
            script = [["connect"], ["login", login, "pw1"], ["cmd", "CWD {P}"]] + script[3:]
        else:
            prefix = ""
            base = f"/base{i}"
            for k, v in corpus.tree("", B).items():
                tree[base + k if k else base] = v
            tree[base] = None
            users.append({"login": f"user{i}", "password": f"pw{i}", "base_path": base})
            script = [["connect"], ["login", f"user{i}", f"pw{i}"], ["cmd", "PWD"]] + script[3:]
            script = [[(x.replace("{P}/", "").replace("{P}", "/") if isinstance(x, str) else x) for x in op] for op in script]
        if script[-1][0] != "quit":
            script.append(["quit"])
        if only is not None and i != only:
            continue
        start = 0.0 if only is not None else case.get("starts", [0.0, 0.0007, 0.0013])[i]
        sessions.append({"label": f"s{i}", "script": script, "prefix": prefix, "start": start, "data_timeout": 2000.0, "reply_timeout": 5000.0})
    faults = []
    if only is None and case.get("fault"):
        f = case["fault"]
        if f["kind"] == "cut":
            faults.append({"at": ["event", f["k"]], "do": "vanish", "session": "s0", "how": f.get("how", "rst")})
        elif f["kind"] == "fs":
            faults.append({"at": ["fslabel", f["k"]], "session": "s0", "errno": errno.EIO})
    return {
        "seed": case["seed"] + (0 if only is None else 7),
        "server": {"block_size": B, "idle_timeout": None, "socket_timeout": None, "wait_future_timeout": None, "users": users if mode == "base" else USERS_PREFIX},
        "net": net,
        "fs": {"delay": case.get("fs_delay", [0.0001, 0.003]), "tree": tree, "short_reads": bool(case["seed"] & 1)},
        "sessions": sessions,
        "faults": faults,
        "settle": 500.0,
        "session_deadline": 50000.0,
        "final_close": True,
    }


def subtree(snap, case, i):
    if case.get("mode", "prefix") == "prefix":
        pre = f"/s{i}"
    else:
        pre = f"/base{i}"
    return {k: v for k, v in snap.items() if k == pre or k.startswith(pre + "/")}


def run_case(case):
    n = len(case["scripts"])
    viol = []
    # ---- solo references
    ref = {}
    for i in range(n):
        if case.get("fault") and i == 0:
            continue
        obs = scenario.run_scenario(build(case, only=i))
        if obs.outcome not in ("ok",):
            raise common.HarnessError(f"solo run failed: {obs.outcome}: {obs.error!r}")
        s = obs.sessions[f"s{i}"]
        ref[i] = (_j(essence(s)), subtree(obs.world.snapshot(), case, i), s.ended)
    # ---- together
    marks = {}

    def inspect(world, obs, phase):
        if phase == "settled":
            marks["snap"] = world.snapshot()
            marks["max_in_flight"] = world.fsctl.max_in_flight

    obs = scenario.run_scenario(build(case), inspect=inspect)
    gc.collect()
    if obs.outcome not in ("ok", "deadlock", "budget"):
        raise common.HarnessError(f"scenario failed: {obs.outcome}: {obs.error!r}")
    if obs.outcome == "deadlock":
        viol.append({"clause": "hang", "subject": "deadlock", "detail": "simulation deadlocked"})
    snap = marks.get("snap", {})
    for i, (e_ref, t_ref, ended_ref) in ref.items():
        s = obs.sessions.get(f"s{i}")
        e = _j(essence(s)) if s is not None else None
        script = case["scripts"][i]
        if e != e_ref:
            viol.append({"clause": "session-observed-something-else", "subject": f"{case.get('mode', 'prefix')}", "detail": f"session s{i} ({script}) next to {[x for j, x in enumerate(case['scripts']) if j != i]} (fault on s0: {case.get('fault')}): {_diff(e, e_ref)}"})
        t = subtree(snap, case, i)
        if t != t_ref:
            only_a = sorted(set(t) - set(t_ref))[:3]
            only_b = sorted(set(t_ref) - set(t))[:3]
            diff = [k for k in t if k in t_ref and t[k] != t_ref[k]][:3]
            viol.append({"clause": "session-subtree-differs", "subject": f"{case.get('mode', 'prefix')}", "detail": f"subtree of s{i} ({script}): only-together {only_a}, only-solo {only_b}, different content {diff}"})
    # nothing outside the sessions' subtrees may appear
    allowed = set()
    for i in range(n):
        allowed |= set(subtree(snap, case, i))
    extra = [k for k in snap if k not in allowed and k != "/"]
    if extra and not case.get("fault"):  # a faulted session 0 may have lost its CWD and written elsewhere
        viol.append({"clause": "foreign-paths-created", "subject": case.get("mode", "prefix"), "detail": f"paths outside every session's subtree: {extra[:5]}"})
    seen = set()
    out = []
    for v in viol:
        key = (v["clause"], v["subject"])
        if key not in seen:
            seen.add(key)
            out.append(v)
    # interleaving signature: order of network events projected on session labels
    sig = []
    last = None
    for (seq, vt, kind, cid, side, nb) in obs.world.net.log:
        lab = obs.world.net.conns[cid].label if 0 <= cid < len(obs.world.net.conns) else None
        if lab != last:
            sig.append(lab)
            last = lab
    import hashlib

    sigd = hashlib.sha256(repr(sig).encode()).hexdigest()[:12]
    res = {
        "digest": obs.digest,
        "nontrivial": len(sig) > n + 1,
        "vtime": obs.vtime,
        "events": obs.events,
        "steps": obs.steps,
        "outcome": obs.outcome,
        "counters": {"sessions_compared_with_solo": len(ref), "probe.two_sessions_inside_backend_at_once": int(marks.get("max_in_flight", 0) > 1), "context_switches_between_sessions": len(sig), "faults.on_session_0": int(bool(case.get("fault")) and len(obs.faults_fired) > 0)},
        "groups": {"interleaving_signature": {sigd: 1}, "mode": {case.get("mode", "prefix"): 1}},
        "violations": out,
    }
    if case.get("want_sample"):
        res["sample"] = {"case": case, "interleaving_prefix": sig[:40], "essence_s1": ref.get(1, (None,))[0]}
    return res


def gen_case(seed):
    rnd = random.Random(seed * 6151 + 17)
    n = rnd.choice([2, 2, 3])
    case = {"seed": seed, "scripts": [rnd.choice(NAMES) for _ in range(n)], "mode": rnd.choice(["prefix", "prefix", "base"]), "starts": [0.0] + [rnd.choice([0.0, 0.0005, 0.003, 0.02]) for _ in range(n - 1)]}
    if case["mode"] == "prefix":
        case["logins"] = [rnd.choice(["anonymous", "anonymous", "u1", "u2"]) for _ in range(n)]
    else:
        # identical scripts on different users' base directories: the same textual paths everywhere
        if rnd.random() < 0.6:
            case["scripts"] = [case["scripts"][0]] * n
    x = rnd.random()
    if x < 0.25:
        case["fault"] = {"kind": "cut", "k": rnd.randrange(5, 150), "how": rnd.choice(["rst", "fin"])}
    elif x < 0.4:
        case["fault"] = {"kind": "fs", "k": rnd.randrange(1, 40)}
    return case


def confirm(case, violation):
    r = run_case(case)
    return any(v["clause"] == violation["clause"] and v["subject"] == violation["subject"] for v in r["violations"])


def minimise(case, violation):
    import copy

    def bad(c):
        try:
            r = run_case(c)
        except Exception:
            return False
        return any(v["clause"] == violation["clause"] and v["subject"] == violation["subject"] for v in r["violations"])

    cur = copy.deepcopy(case)
    cur.pop("want_sample", None)
    if len(cur["scripts"]) == 3:
        for drop in (2, 1):
            trial = copy.deepcopy(cur)
            del trial["scripts"][drop]
            del trial["starts"][drop]
            if "logins" in trial:
                del trial["logins"][drop]
            if bad(trial):
                cur = trial
                break
    for key, val in (("fault", None), ("fs_delay", None), ("small_pipe", False)):
        if cur.get(key) == val:
            continue
        trial = copy.deepcopy(cur)
        if val is None:
            trial.pop(key, None)
        else:
            trial[key] = val
        if bad(trial):
            cur = trial
    return cur, violation


def selftest_cases(n):
    return [gen_case(110_000 + i) for i in range(n)]


def main(argv=None):
    a = common.tier_and_seed(argv)
    if a.replay:
        import json

        doc = json.load(open(a.replay))
        r = run_case(doc["case"])
        hit = [v for v in r["violations"] if v["clause"] == doc["clause"]]
        if hit:
            print(f"reproduced: {hit[0]}")
            print(f"VIOLATION property={PROP} replay={a.replay}")
            return 1
        print("not reproduced")
        return 0
    quick = a.tier == "quick"
    ev = common.Evidence(PROP, a.tier, a.seed, "exploration", "pairs / triples of corpus scripts on disjoint subtrees (private prefixes of one base directory with same or different users, or different users' base directories with identical textual paths), each run solo and then together under seeded interleavings (latencies, backend delays, start offsets, task-hash salt), optionally with session 0 cut / faulted; non-trivial = the sessions' network events actually alternated; distinct = distinct run digests; distinct interleavings are counted by signature (order of network events projected on session ids)")
    rep = common.Reporter(PROP, ev)
    deadline = time.time() + (a.budget or (75 if quick else 1500))
    n = 1500 if quick else 200000
    with common.Pool() as pool:
        cases = common.with_samples((gen_case(a.seed * 1_000_000 + i) for i in range(n)), 2)
        for case, res in pool.map(run_case, cases, deadline=deadline, chunksize=4):
            ev.add_run(res)
            for v in res["violations"]:
                rep.add(case, v)
        ev.extra["distinct_interleavings"] = len(ev.groups.get("interleaving_signature", {}))
        ev.groups.pop("interleaving_signature", None)
        ev.assumptions = ["isolation is judged against the session's own solo run on the same tree (differential oracle); passive port numbers, Modify/Create facts and ls dates are masked", "a session that is itself cut / faulted is not compared"]
        code = rep.finish(minimise=minimise, confirm=confirm)
    ev.write()
    print(f"{PROP}: {ev.evaluations} runs, {len(ev.nontrivial_digests)} distinct non-trivial, {ev.violations} violation classes, exit {code}")
    return code
