"""C02 - every client-supplied path stays inside the user's base directory.

Wire-level sessions (raw peer, spy backend) for users with base_path in {/srv/u, rel/dir,
., /} and several home paths; a random walk of CWD / CDUP interleaved with every
path-taking verb given a generated path (0..8 segments from {name, '..', '.', '', '...',
'..x', 'a\\b', 'C:', 'C:\\w', '\\\\srv', '.hid', unicode}, optional leading '/' or '//',
optional trailing '/').  Oracles: (1) every path the backend is handed is lexically inside
base_path and contains no '..'; nothing outside base_path ever changes; (2) an independent
resolver predicts the virtual path: PWD after CWD equals it and the backend path equals
base_path / predicted (through the reference model's tree); (3) pure sub-check (declared
as such): the same path generator applied directly to Server.get_paths with POSIX and
Windows-flavoured base paths.
"""

from __future__ import annotations

import asyncio
import gc
import pathlib
import random
import time

from checks import common
from simftp import conform, scenario
from simftp import model as M
from simftp.peers import RawPeer
from simftp.world import aioftp

PROP = "C02"
SEGS = ["a", "b", "d1", "d2", "d3", "f", "..", "..", "..", ".", "", "...", "..x", "a\\b", "C:", "C:\\w", "\\\\srv", ".hid", "ü", "..\\..", "~", "%2e%2e"]
BASES = ["/srv/u", "rel/dir", ".", "/", "/srv/u/deep/er"]
HOMES = ["/", "/home", "/d1/d2"]
VERBS = ["CWD", "MKD", "RMD", "DELE", "RNFR", "RNTO", "MLST", "MLSD", "LIST", "STOR", "APPE", "RETR"]


def gen_path(rnd):
    n = rnd.choice([0, 1, 1, 2, 2, 3, 4, 5, 8])
    s = "/".join(rnd.choice(SEGS) for _ in range(n))
    lead = rnd.choice(["", "", "/", "/", "//", "///"])
    trail = rnd.choice(["", "", "", "/"])
    p = lead + s + trail
    return p.rstrip(" ")


def real_of(base, virt):
    b = pathlib.PurePosixPath(base)
    if not b.is_absolute():
        b = pathlib.PurePosixPath("/") / b
    v = virt.strip("/")
    return str(b / v) if v else str(b)


def gen_case(seed):
    rnd = random.Random(seed * 7727 + 3)
    base = rnd.choice(BASES)
    home = rnd.choice(HOMES)
    ops = [["USER", "u"], ["PWD", ""], ["PASV", ""]]
    for _ in range(rnd.choice([5, 10, 18, 28])):
        x = rnd.random()
        if x < 0.30:
            ops.append(["CWD", rnd.choice([gen_path(rnd), "d1", "d1/d2", "d2", "d3", "..", "/d1/d2/d3", "home"])])
            ops.append(["PWD", ""])
        elif x < 0.38:
            ops.append(["CDUP", ""])
            ops.append(["PWD", ""])
        else:
            v = rnd.choice(VERBS)
            arg = gen_path(rnd)
            if v == "RNTO":
                src = rnd.choice([gen_path(rnd), "f", "d1/f1"])
                ops.append(["RNFR", src if M.resolve("/", src) != "/" and ".." not in src else "d1/f1"])
            if v in ("RNFR", "RMD") and (M.resolve("/", arg) == "/" or ".." in arg):
                arg = "d1/d2/d3"  # mutations aimed at the virtual root itself are not generated (see C18)
            if v in M.TRANSFER:
                if rnd.random() < 0.4:
                    ops.append([rnd.choice(["PASV", "EPSV"]), ""])
                o = {"connect": rnd.choice(["before", "after"])}
                if o["connect"] == "after" and rnd.random() < 0.4:
                    # the working directory changes between the 1xx mark and the data connection
                    o["between"] = [rnd.choice([["CWD", rnd.choice(["d1", "d1/d2", "/", "..", "/d1/d2/d3", "home", "/home"])], ["CDUP", ""]]) for _ in range(rnd.randint(1, 2))]
                ops.append([v, arg, o])
            else:
                ops.append([v, arg])
    base2 = "/srv/v"  # disjoint from every first base directory
    # re-login as the other user in mid-session, then repeat the previous path-taking command
    out = []
    cur = "u"
    for op in ops:
        out.append(op)
        if op[0] in VERBS and rnd.random() < 0.12:
            cur = "v" if cur == "u" else "u"
            out.append(["USER", cur])
            if cur == "v":
                out.append(["PASS", "pv"])  # v has a password: its login completes in PASS
            if op[0] == "RNFR" and rnd.random() < 0.6:
                # a rename begun under the previous login must not be completed under this one
                out.append(["RNTO", rnd.choice(["moved", "/moved", "d1/moved"])])
            else:
                out.append(list(op))
    return {"seed": seed, "base": base, "base2": base2, "home": home, "ops": out}


def virt_tree(home):
    t = {"/": None, "/f": b"root-file", "/d1": None, "/d1/f1": b"f1f1", "/d1/d2": None, "/d1/d2/d3": None, "/d1/d2/d3/deep": b"deep", "/home": None, "/home/h": b"hh"}
    return t


def run_case(case):
    rng = random.Random(case["seed"] * 7919 + 59)
    net = scenario.random_net(rng, allow_small_pipe=False)
    net["latency"] = [0.0005, 0.001]
    base, home = case["base"], case["home"]
    base2 = case.get("base2", "/srv/v")
    if real_of(base, "/") == "/":
        base2 = None  # with base "/" there is no room for a second, disjoint base directory
    ulist = [{"login": "u", "base_path": base, "home_path": home}]
    if base2:
        ulist.append({"login": "v", "password": "pv", "base_path": base2, "home_path": "/"})
    sc = {"seed": case["seed"], "server": {"block_size": 16, "wait_future_timeout": 5.0, "users": ulist}, "net": net, "fs": {"delay": None}}
    viol = []
    info = {"calls_checked": 0, "escape_attempts": 0}
    world = scenario.setup_world(sc)
    with world:
        server = scenario.finish_setup(world, sc)
        vt = virt_tree(home)
        vt2 = {k: (v if v is None else b"V:" + v) for k, v in vt.items()}
        real = {}
        for k, v in vt.items():
            real[real_of(base, k)] = v
        if base2:
            for k, v in vt2.items():
                real[real_of(base2, k)] = v
        outside = {"/outside": None, "/outside/secret": b"TOP-SECRET", "/srv": None, "/srv/other": None, "/srv/other/x": b"other-user", "/srv/uu": None, "/srv/uu/y": b"prefix-sibling", "/etc": None, "/etc/passwd": b"root:x"}
        if real_of(base, "/") != "/":  # with base "/" (or ".") nothing is outside
            for k, v in outside.items():
                real.setdefault(k, v)
        world.populate({k: v for k, v in real.items() if k != "/"})
        bases = {"u": real_of(base, "/")}
        trees = {"u": dict(vt)}
        mus = [M.UserSpec("u", None, home=home)]
        if base2:
            bases["v"] = real_of(base2, "/")
            trees["v"] = dict(vt2)
            mus.append(M.UserSpec("v", "pv", home="/"))
        sess = M.Session(mus, trees["u"])
        peer = RawPeer(world, "s0", reply_timeout=100.0)
        initial_outside = None
        cur_user = ["u"]

        def split_snapshot(who=None):
            """(tree under `who`'s base as virtual paths, everything else)"""
            who = who or cur_user[0]
            rbase = bases[who]
            pbase = pathlib.PurePosixPath(rbase)
            snap = world.snapshot()
            inside, out = {}, {}
            for k, v in snap.items():
                pk = pathlib.PurePosixPath(k)
                if k == rbase or (pk.is_relative_to(pbase) and rbase != "/") or rbase == "/":
                    rel = "/" + str(pk.relative_to(pbase)) if k != rbase else "/"
                    if rel == "/.":
                        rel = "/"
                    inside[rel] = v
                else:
                    out[k] = v
            return inside, out

        seen_calls = [0]

        def on_step(st, phase, s):
            if phase == "before":
                arg = st.op[1]
                if ".." in arg:
                    info["escape_attempts"] += 1
                # the model's user decides whose base directory and whose tree are in force
                who = s.user.login if s.auth else cur_user[0]
                if who != cur_user[0]:
                    cur_user[0] = who
                    initial_outside[0] = split_snapshot()[1]
                s.tree = trees[who]
                return
            rbase = bases[cur_user[0]]
            pbase = pathlib.PurePosixPath(rbase)
            base = {"u": case["base"], "v": base2}[cur_user[0]]
            # (1) every path handed to the backend since the last step
            calls = world.fsctl.calls[seen_calls[0] :]
            seen_calls[0] = len(world.fsctl.calls)
            for (n, label, op, path, outcome) in calls:
                if path is None:
                    continue
                for part in path.split(" -> "):
                    info["calls_checked"] += 1
                    pp = pathlib.PurePosixPath(part)
                    app = pp if pp.is_absolute() else pathlib.PurePosixPath("/") / pp
                    if ".." in pp.parts:
                        viol.append({"clause": "backend-path-contains-dotdot", "subject": st.op[0].upper(), "detail": f"{st.op[:2]}: backend {op}({part!r})"})
                    if not (str(app) == rbase or app.is_relative_to(pbase)):
                        viol.append({"clause": "backend-path-outside-base", "subject": st.op[0].upper(), "detail": f"{st.op[:2]} (cwd {s.cwd}): backend {op}({part!r}) is outside base_path {base!r}"})
            inside, out = split_snapshot()
            if out != initial_outside[0]:
                viol.append({"clause": "outside-base-changed", "subject": st.op[0].upper(), "detail": f"{st.op[:2]}: something outside base_path {base!r} changed"})
                initial_outside[0] = out
            if st.final is not None and inside != s.tree:
                only_m = sorted(set(s.tree) - set(inside))
                only_s = sorted(set(inside) - set(s.tree))
                viol.append({"clause": "wrong-location-addressed", "subject": st.op[0].upper(), "detail": f"{st.op[:2]} -> {st.final} (model cwd {s.cwd}): under base_path only-in-model {only_m[:3]}, only-in-backend {only_s[:3]}"})
                s.tree.clear()
                s.tree.update(inside)
            if st.op[0].upper() == "USER":
                info["user_switches"] = info.get("user_switches", 0) + 1

        async def main():
            await server.start("127.0.0.1", 2121)
            initial_outside_val = split_snapshot()[1]
            initial_outside.append(initial_outside_val)
            await peer.connect()
            steps = await conform.drive(peer, sess, [tuple(o) for o in case["ops"]], world=world, check_tree=False, on_step=on_step)
            info["steps"] = steps
            peer.close()
            await asyncio.sleep(1)
            await common.close_server(server)

        initial_outside = []
        world.run(main())
        gc.collect()
        if world.outcome not in ("ok", "budget", "deadlock"):
            raise common.HarnessError(f"scenario failed: {world.outcome}: {world.error!r}")
        n = 0
        for i, st in enumerate(info.get("steps", [])):
            if st.final is not None:
                n += 1
            for kind, text in st.problems:
                if kind == "not-run":
                    continue
                viol.append({"clause": kind, "subject": st.op[0].upper(), "detail": f"step {i}: {text} (base {base!r}, home {home!r})", "step": i})
        # (3) pure sub-check on Server.get_paths, POSIX and Windows flavours
        pure = 0
        rnd = random.Random(case["seed"] + 99)
        for flavour, bases in (("posix", ["/srv/u", "rel/dir", ".", "/"]), ("windows", ["C:\\ftp", "C:\\", "\\\\host\\share\\ftp", "ftp\\rel"])):
            for _ in range(40):
                b = rnd.choice(bases)
                user = aioftp.User()
                user.base_path = pathlib.PurePosixPath(b) if flavour == "posix" else pathlib.PureWindowsPath(b)
                cwd = M.resolve("/", gen_path(rnd).replace("..", "x"))
                arg = gen_path(rnd)

                fc = aioftp.Connection(current_directory=pathlib.PurePosixPath(cwd), user=user)
                realp, virtp = aioftp.Server.get_paths(fc, arg)
                pure += 1
                if not realp.is_relative_to(user.base_path) or ".." in realp.parts:
                    viol.append({"clause": "get-paths-escapes-base", "subject": flavour, "detail": f"get_paths(cwd={cwd!r}, {arg!r}) with base {b!r} -> {realp!r}"})
                if flavour == "posix":
                    want = M.resolve(cwd, arg)
                    if str(virtp) != want and not (str(virtp) == "/" and want == "/"):
                        viol.append({"clause": "get-paths-wrong-virtual-path", "subject": flavour, "detail": f"get_paths(cwd={cwd!r}, {arg!r}) -> virtual {str(virtp)!r}, independent resolver {want!r}"})
        seen = set()
        out = []
        for v in viol:
            key = (v["clause"], v["subject"])
            if key not in seen:
                seen.add(key)
                out.append(v)
        res = {
            "digest": world.digest([tuple(x[1:]) for x in peer.transcript]),
            "nontrivial": info["calls_checked"] > 0 and info["escape_attempts"] > 0,
            "vtime": world.loop.time() - 1000.0,
            "events": world.net.seq,
            "steps": world.loop.steps,
            "outcome": world.outcome,
            "counters": {"commands_checked": n, "backend_paths_checked": info["calls_checked"], "arguments_containing_dotdot": info["escape_attempts"], "pure_subcheck.get_paths_calls": pure, "probe.relogin_as_other_user_and_repeat_path": info.get("user_switches", 0), "probe.commands_between_mark_and_data_connection": sum(st.between for st in info.get("steps", []))},
            "groups": {"base_path": {base: 1}},
            "violations": out,
        }
        if case.get("want_sample"):
            res["sample"] = {"case": case, "transcript": [list(x) for x in peer.transcript][:30]}
    return res


def confirm(case, violation):
    r = run_case(case)
    return any(v["clause"] == violation["clause"] and v["subject"] == violation["subject"] for v in r["violations"])


def minimise(case, violation):
    import copy

    def bad(c):
        try:
            r = run_case(c)
        except Exception:
            return False
        return any(v["clause"] == violation["clause"] and v["subject"] == violation["subject"] for v in r["violations"])

    cur = copy.deepcopy(case)
    cur.pop("want_sample", None)
    budget = 100
    i = len(cur["ops"]) - 1
    while i >= 1 and budget > 0:
        trial = copy.deepcopy(cur)
        del trial["ops"][i]
        budget -= 1
        if bad(trial):
            cur = trial
        i -= 1
    return cur, violation


def selftest_cases(n):
    return [gen_case(80_000 + i) for i in range(n)]


def main(argv=None):
    a = common.tier_and_seed(argv)
    if a.replay:
        import json

        doc = json.load(open(a.replay))
        r = run_case(doc["case"])
        hit = [v for v in r["violations"] if v["clause"] == doc["clause"]]
        if hit:
            print(f"reproduced: {hit[0]}")
            print(f"VIOLATION property={PROP} replay={a.replay}")
            return 1
        print("not reproduced")
        return 0
    quick = a.tier == "quick"
    ev = common.Evidence(PROP, a.tier, a.seed, "exploration", "seeded wire-level sessions: base_path in {/srv/u, rel/dir, ., /, nested} x home_path in {/, /home, /d1/d2} x CWD/CDUP walks interleaved with all 12 path-taking verbs on generated paths (0..8 segments over a 20-symbol alphabet incl. '..', '.', '', backslash / drive-like / dot-prefixed / percent-encoded names, leading '/', '//', trailing '/'); non-trivial = backend paths were checked and at least one argument contained '..'; distinct = distinct run digests.  pure_subcheck.get_paths_calls counts direct calls of the static method Server.get_paths (input sampling, not simulation) incl. Windows-flavoured base paths Transfers may have CWD/CDUP sent between their 1xx mark and the data connection.")
    rep = common.Reporter(PROP, ev)
    deadline = time.time() + (a.budget or (60 if quick else 1200))
    n = 4000 if quick else 500000
    with common.Pool() as pool:
        cases = common.with_samples((gen_case(a.seed * 1_000_000 + i) for i in range(n)), 2)
        for case, res in pool.map(run_case, cases, deadline=deadline, chunksize=8):
            ev.add_run(res)
            for v in res["violations"]:
                rep.add(case, v)
        ev.assumptions = ["no fault is injected: the statement quantifies over inputs, histories and configurations only; the simulator contributes the wire-level stateful session and the backend observation point", "a Windows base path cannot be hosted by a running backend on this OS: that flavour is checked on the static method only (pure sub-check)"]
        code = rep.finish(minimise=minimise, confirm=confirm)
    ev.write()
    print(f"{PROP}: {ev.evaluations} runs, {len(ev.nontrivial_digests)} distinct non-trivial, {ev.violations} violation classes, exit {code}")
    return code
